// Harness for property C08 (transport framing under arbitrary segmentation).
//
//	gen <tier> <cases-out>      generate cases, run the implementation over real loopback TCP, write case lines
//	one R <stream> <sizes>      replay one mode-level read case            (prints the implementation's result)
//	one T <v> <stream> <sizes>  replay one transport-level read case
//	one W <v> <msg>             replay one WriteMsg case
//	one F <v> <m1,m2,...>       replay one whole-stream write case (mode.New + WriteMsg* over TCP)
//
// The code under test always owns a real TCP connection made by transport.NewTCP (tcpConn: exact-count
// reads through go-dry CancelableReader).  The harness is the peer: it accepts the connection on
// 127.0.0.1 and forwards the byte stream in the chosen chunk sizes.  Between two chunks it waits until
// the kernel reports that everything sent so far was acknowledged AND read by the application
// (ioctl SIOCOUTQ of the sending socket = 0 and SIOCINQ of the receiving socket = 0), so the
// reader really sees the stream arrive in exactly these pieces; the mechanism is validated on every
// run by a plain recording reader (selftest).
//
// case lines (tab separated; the model driver reads only the leading fields, see coq/extract/C08/driver.ml):
//
//	A id v impl                          announcement written by mode.New
//	W id v msg impl                      impl = O:<hex written by WriteMsg> | E | PANIC
//	F id v m1,m2,.. ref impl class       ref = harness reference framing, impl = bytes the real writer sent over TCP
//	                                     (class transport-writemsg: m_i are unencrypted envelopes sent through transport.WriteMsg)
//	R id stream sizes impl expect class  impl/expect = <A|I|->|<n>:<m1,..>|<EOF|OTHER>   expect "?" if not a valid stream, "=" if equal to impl
//	T id v stream sizes impl expect class announce unparsed   impl/expect = <n>:<C<dec>|D<hex>|P,..>|<EOF|OTHER>
//	                                     (P = frame read, payload refused by the message parser; unparsed = those payloads)
//	H id v n impl ref                    WriteMsg of an n-byte zero message into a counting connection: O:<header> | E
//	B id v n1,n2,.. impl expect class    messages up to 2^31 bytes end to end, payloads checked against a pattern
//
// side file <cases-out>.extra.json: hostile length fields (child processes under RLIMIT_AS), read deadline /
// cancellation scenarios, cases that could not be segmented (then exit 4)
package main

import (
	"bufio"
	"context"
	"encoding/binary"
	"encoding/json"
	"fmt"
	"io"
	"net"
	"os"
	"os/exec"
	"runtime"
	"runtime/metrics"
	"sort"
	"strconv"
	"strings"
	"sync"
	"syscall"
	"time"
	"unsafe"

	"github.com/pkg/errors"
	"github.com/xelaj/mtproto/internal/mode"
	"github.com/xelaj/mtproto/internal/mtproto/messages"
	"github.com/xelaj/mtproto/internal/transport"
	vc "verifcommon"
)

// ------------------------------------------------------------------ reference framing (independent of the code under test)

func refAnnounce(v string) []byte {
	if v == "A" {
		return []byte{0xef}
	}
	return []byte{0xee, 0xee, 0xee, 0xee}
}

func refHeader(v string, n int) []byte {
	if v == "A" {
		w := n / 4
		if w < 127 {
			return []byte{byte(w)}
		}
		return []byte{0x7f, byte(w), byte(w >> 8), byte(w >> 16)}
	}
	return []byte{byte(n), byte(n >> 8), byte(n >> 16), byte(n >> 24)}
}

func refFrames(v string, msgs [][]byte) []byte {
	var s []byte
	for _, m := range msgs {
		s = append(s, refHeader(v, len(m))...)
		s = append(s, m...)
	}
	return s
}

func refWire(v string, msgs [][]byte) []byte {
	return append(append([]byte{}, refAnnounce(v)...), refFrames(v, msgs)...)
}

func variantOf(v string) mode.Variant {
	if v == "A" {
		return mode.Abridged
	}
	return mode.Intermediate
}

func hexList(msgs [][]byte) string {
	l := make([]string, len(msgs))
	for i, m := range msgs {
		l[i] = vc.Hex(m)
	}
	return strings.Join(l, ",")
}

func unhexList(s string) [][]byte {
	if s == "" {
		return nil
	}
	var r [][]byte
	for _, h := range strings.Split(s, ",") {
		r = append(r, vc.UnHex(h))
	}
	return r
}

func showDelivery(v string, msgs [][]byte, end string) string {
	return fmt.Sprintf("%s|%d:%s|%s", v, len(msgs), hexList(msgs), end)
}

// ------------------------------------------------------------------ chunk size lists ("KxN" run-length text)

func sizesText(cuts []int) string {
	if len(cuts) == 0 {
		return "-"
	}
	var parts []string
	for i := 0; i < len(cuts); {
		j := i
		for j < len(cuts) && cuts[j] == cuts[i] {
			j++
		}
		if j-i >= 3 {
			parts = append(parts, fmt.Sprintf("%dx%d", cuts[i], j-i))
		} else {
			for k := i; k < j; k++ {
				parts = append(parts, strconv.Itoa(cuts[i]))
			}
		}
		i = j
	}
	return strings.Join(parts, ",")
}

func parseSizes(s string) []int {
	if s == "-" || s == "" {
		return nil
	}
	var r []int
	for _, it := range strings.Split(s, ",") {
		if i := strings.IndexByte(it, 'x'); i >= 0 {
			k, _ := strconv.Atoi(it[:i])
			n, _ := strconv.Atoi(it[i+1:])
			for j := 0; j < n; j++ {
				r = append(r, k)
			}
		} else {
			k, _ := strconv.Atoi(it)
			r = append(r, k)
		}
	}
	return r
}

// chunks actually sent: the listed sizes, then whatever is left (same rule as the model's [cut])
func chunksOf(stream []byte, cuts []int) [][]byte {
	var r [][]byte
	off := 0
	for _, n := range cuts {
		if off+n > len(stream) {
			n = len(stream) - off
		}
		r = append(r, stream[off:off+n])
		off += n
	}
	if off < len(stream) {
		r = append(r, stream[off:])
	}
	return r
}

// ------------------------------------------------------------------ loopback TCP peer with segment barrier

type peer struct {
	ln       *net.TCPListener
	addr     string
	port     int
	cur      string
	timeouts int // barriers that gave up (segmentation of that case not guaranteed)
	barriers int
	giveUp   time.Duration // how long one barrier waits (1 s in the parallel phase, longer when a case is retried alone)
	caseFail int           // barriers that gave up during the current case
}

func newPeer() *peer {
	ln, err := net.ListenTCP("tcp4", &net.TCPAddr{IP: net.IPv4(127, 0, 0, 1), Port: 0})
	if err != nil {
		fmt.Fprintln(os.Stderr, "listen:", err)
		os.Exit(3)
	}
	a := ln.Addr().(*net.TCPAddr)
	p := &peer{ln: ln, addr: a.String(), port: a.Port, giveUp: time.Second}
	// test hooks of the harness itself: C08_GIVEUP_US shortens the give-up of the parallel phase (forces second
	// passes), C08_NOFD=1 hides the reader's socket (forces UNSEGMENTED -> exit 4)
	if us, err := strconv.Atoi(os.Getenv("C08_GIVEUP_US")); err == nil && us > 0 {
		p.giveUp = time.Duration(us) * time.Microsecond
	}
	return p
}

func (p *peer) accept() *net.TCPConn {
	p.ln.SetDeadline(time.Now().Add(10 * time.Second))
	c, err := p.ln.AcceptTCP()
	if err != nil {
		fmt.Fprintln(os.Stderr, "accept:", err)
		os.Exit(3)
	}
	c.SetNoDelay(true)
	return c
}

// readerFD finds, among the file descriptors of this process, the socket whose peer is our listener and
// whose local port is rport - i.e. the socket the code under test dialled (it keeps it private).
// File descriptor numbers are process wide, so the harness can ask the kernel about that socket
// (ioctl SIOCINQ) without touching the object that owns it.
func (p *peer) readerFD(rport int) int {
	if os.Getenv("C08_NOFD") != "" {
		return -1
	}
	ents, err := os.ReadDir("/proc/self/fd")
	if err != nil {
		return -1
	}
	for _, e := range ents {
		fd, err := strconv.Atoi(e.Name())
		if err != nil || fd < 3 {
			continue
		}
		pa, err := syscall.Getpeername(fd)
		if err != nil {
			continue
		}
		p4, ok := pa.(*syscall.SockaddrInet4)
		if !ok || p4.Port != p.port || p4.Addr != [4]byte{127, 0, 0, 1} {
			continue
		}
		la, err := syscall.Getsockname(fd)
		if err != nil {
			continue
		}
		if l4, ok := la.(*syscall.SockaddrInet4); ok && l4.Port == rport {
			return fd
		}
	}
	return -1
}

func ioctlInt(fd int, req uintptr) (int, bool) {
	var v int32
	_, _, e := syscall.Syscall(syscall.SYS_IOCTL, uintptr(fd), req, uintptr(unsafe.Pointer(&v)))
	return int(v), e == 0
}

const (
	siocinq  = 0x541B // bytes received and not yet read by the application
	siocoutq = 0x5411 // bytes written and not yet acknowledged by the peer's kernel
)

// barrier waits until all bytes written to srv were acknowledged (SIOCOUTQ of srv = 0) and consumed by
// the application on the other end (SIOCINQ of its socket = 0).  Gives up after p.giveUp (counted) or when
// stop is closed.
func (p *peer) barrier(srv *net.TCPConn, rfd int, stop <-chan struct{}) bool {
	p.barriers++
	if rfd < 0 {
		// the reader's socket was not found (no /proc?): fall back to a pause; counted as not guaranteed
		p.timeouts++
		p.caseFail++
		time.Sleep(100 * time.Microsecond)
		return false
	}
	raw, err := srv.SyscallConn()
	if err != nil {
		p.timeouts++
		p.caseFail++
		return false
	}
	deadline := time.Now().Add(p.giveUp)
	for i := 0; ; i++ {
		tx, ok1 := 0, false
		raw.Control(func(fd uintptr) { tx, ok1 = ioctlInt(int(fd), siocoutq) })
		rx, ok2 := ioctlInt(rfd, siocinq)
		if ok1 && ok2 && tx == 0 && rx == 0 {
			return true
		}
		select {
		case <-stop:
			return false
		default:
		}
		if i > 200 {
			if time.Now().After(deadline) {
				p.timeouts++
				p.caseFail++
				if os.Getenv("C08_DEBUG") != "" {
					fmt.Fprintf(os.Stderr, "barrier timeout: tx=%d rx=%d ok=%v,%v %s\n", tx, rx, ok1, ok2, p.cur)
				}
				return false
			}
			time.Sleep(20 * time.Microsecond)
		} else {
			runtime.Gosched()
		}
	}
}

// feed sends the chunks, waiting at the barrier after each (if wanted), then half-closes (FIN).
func (p *peer) feed(srv *net.TCPConn, chunks [][]byte, useBarrier bool, stop <-chan struct{}) {
	rfd := -1
	if useBarrier {
		rfd = p.readerFD(srv.RemoteAddr().(*net.TCPAddr).Port)
	}
	for _, c := range chunks {
		if len(c) == 0 {
			continue // an empty chunk is no segment at all
		}
		if _, err := srv.Write(c); err != nil {
			return
		}
		if useBarrier {
			p.barrier(srv, rfd, stop)
		}
	}
	srv.CloseWrite()
}

// kill the accepted socket without leaving TIME_WAIT behind (RST)
func kill(srv *net.TCPConn) {
	srv.SetLinger(0)
	srv.Close()
}

func errKind(err error) string {
	if err == io.EOF {
		return "EOF"
	}
	return "OTHER"
}

// hangScale multiplies every time budget (4 while a HANG verdict is being confirmed)
var hangScale = 1

func withTimeout(d time.Duration, f func() string) string {
	d *= time.Duration(hangScale)
	ch := make(chan string, 1)
	go func() {
		var res string
		panicked, val := vc.Catch(func() { res = f() })
		if panicked {
			res = "PANIC:" + strings.ReplaceAll(strings.ReplaceAll(fmt.Sprint(val), "\t", " "), "\n", " ")
		}
		ch <- res
	}()
	select {
	case r := <-ch:
		return r
	case <-time.After(d):
		return "HANG"
	}
}

func caseTimeout(stream []byte, nchunks int) time.Duration {
	return 15*time.Second + time.Duration(nchunks)*2*time.Millisecond + time.Duration(len(stream))*time.Microsecond
}

// runR: the code under test dials (transport.NewTCP), detects the mode (mode.Detect) and reads messages
// (Mode.ReadMsg) until the first error while the peer feeds the stream in the given chunks.
func (p *peer) runR(stream []byte, cuts []int, useBarrier bool) string {
	ctx, cancel := context.WithCancel(context.Background())
	defer cancel()
	c, err := transport.NewTCP(transport.TCPConnConfig{Ctx: ctx, Host: p.addr})
	if err != nil {
		return "DIAL-ERROR"
	}
	srv := p.accept()
	stop := make(chan struct{})
	chunks := chunksOf(stream, cuts)
	var wg sync.WaitGroup
	wg.Add(1)
	go func() { defer wg.Done(); p.feed(srv, chunks, useBarrier, stop) }()
	res := withTimeout(caseTimeout(stream, len(chunks)), func() string {
		m, err := mode.Detect(c)
		if err != nil {
			return "-|0:|" + errKind(err)
		}
		v := "?"
		if vv, err := mode.GetVariant(m); err == nil {
			switch vv {
			case mode.Abridged:
				v = "A"
			case mode.Intermediate:
				v = "I"
			}
		}
		var msgs [][]byte
		for {
			msg, err := m.ReadMsg()
			if err != nil {
				return showDelivery(v, msgs, errKind(err))
			}
			msgs = append(msgs, msg)
			if len(msgs) > len(stream)+2 {
				return showDelivery(v, msgs, "RUNAWAY")
			}
		}
	})
	close(stop)
	kill(srv)
	wg.Wait()
	c.Close()
	return res
}

// parserRejected: transport.ReadMsg failed, but not because reading from the connection failed.
// Only used to decide whether the harness may call ReadMsg again (after a failed read the go-dry reader
// never returns any more); the compared observable is just "payload rejected by the parser".
func parserRejected(err error) bool {
	if err == io.EOF || err == context.Canceled {
		return false
	}
	c := errors.Cause(err)
	if c == io.EOF || c == io.ErrUnexpectedEOF || c == context.Canceled {
		return false
	}
	if _, ok := c.(net.Error); ok {
		return false
	}
	return !strings.Contains(err.Error(), "reading message")
}

type informator struct{}

func (informator) GetSessionID() int64  { return 1 }
func (informator) GetSeqNo() int32      { return 0 }
func (informator) GetServerSalt() int64 { return 0 }
func (informator) GetAuthKey() []byte   { return make([]byte, 256) }

func envelope(msgID int64, payload []byte) []byte {
	b := make([]byte, 20, 20+len(payload))
	binary.LittleEndian.PutUint64(b[8:], uint64(msgID))
	binary.LittleEndian.PutUint32(b[16:], uint32(len(payload)))
	return append(b, payload...)
}

// runT: transport.NewTransport (dial + mode.New, which announces) and Transport.ReadMsg until EOF / a
// non-code error.  Returns the result and the announcement the peer received.
func (p *peer) runT(v string, stream []byte, cuts []int, useBarrier bool) (string, string) {
	ctx, cancel := context.WithCancel(context.Background())
	defer cancel()
	t, err := transport.NewTransport(informator{}, transport.TCPConnConfig{Ctx: ctx, Host: p.addr}, variantOf(v))
	if err != nil {
		return "DIAL-ERROR", "-"
	}
	srv := p.accept()
	ann := make([]byte, len(refAnnounce(v)))
	srv.SetReadDeadline(time.Now().Add(5 * time.Second))
	n, _ := io.ReadFull(srv, ann)
	ann = ann[:n]
	stop := make(chan struct{})
	chunks := chunksOf(stream, cuts)
	var wg sync.WaitGroup
	wg.Add(1)
	go func() { defer wg.Done(); p.feed(srv, chunks, useBarrier, stop) }()
	res := withTimeout(caseTimeout(stream, len(chunks)), func() string {
		var evs []string
		for {
			msg, err := t.ReadMsg()
			if err == nil {
				switch m := msg.(type) {
				case *messages.Unencrypted:
					evs = append(evs, "D"+vc.Hex(envelope(m.MsgID, m.Msg)))
				default:
					evs = append(evs, fmt.Sprintf("X%T", msg))
				}
			} else if code, ok := err.(transport.ErrCode); ok {
				evs = append(evs, "C"+strconv.Itoa(int(code)))
			} else if parserRejected(err) {
				// the frame was read, the message parser behind it refused the payload (outside C08): the
				// connection must still be positioned behind that frame, which the following events show
				evs = append(evs, "P")
			} else {
				return fmt.Sprintf("%d:%s|%s", len(evs), strings.Join(evs, ","), errKind(err))
			}
			if len(evs) > len(stream)+2 {
				return fmt.Sprintf("%d:%s|RUNAWAY", len(evs), strings.Join(evs, ","))
			}
		}
	})
	close(stop)
	kill(srv)
	wg.Wait()
	t.Close()
	return res, vc.Hex(ann)
}

// runF: the real writer over TCP: transport.NewTCP + mode.New + WriteMsg for every message + Close;
// the peer records every byte until FIN.
func (p *peer) runF(v string, msgs [][]byte) string {
	ctx, cancel := context.WithCancel(context.Background())
	defer cancel()
	c, err := transport.NewTCP(transport.TCPConnConfig{Ctx: ctx, Host: p.addr})
	if err != nil {
		return "DIAL-ERROR"
	}
	srv := p.accept()
	got := make(chan []byte, 1)
	go func() {
		srv.SetReadDeadline(time.Now().Add(60 * time.Second))
		b, _ := io.ReadAll(srv)
		got <- b
	}()
	res := withTimeout(60*time.Second, func() string {
		m, err := mode.New(variantOf(v), c)
		if err != nil {
			return "E"
		}
		for _, msg := range msgs {
			if err := m.WriteMsg(msg); err != nil {
				return "E"
			}
		}
		return ""
	})
	c.Close()
	b := <-got
	kill(srv)
	if res != "" {
		return res
	}
	return vc.Hex(b)
}

// runFT: the real writer through transport.WriteMsg: transport.NewTransport (announces) + WriteMsg of an
// unencrypted message per envelope + Close; the peer records every byte until FIN.
func (p *peer) runFT(v string, envs [][]byte) string {
	ctx, cancel := context.WithCancel(context.Background())
	defer cancel()
	t, err := transport.NewTransport(informator{}, transport.TCPConnConfig{Ctx: ctx, Host: p.addr}, variantOf(v))
	if err != nil {
		return "DIAL-ERROR"
	}
	srv := p.accept()
	got := make(chan []byte, 1)
	go func() {
		srv.SetReadDeadline(time.Now().Add(60 * time.Second))
		b, _ := io.ReadAll(srv)
		got <- b
	}()
	res := withTimeout(60*time.Second, func() string {
		for _, e := range envs {
			msg := &messages.Unencrypted{MsgID: int64(binary.LittleEndian.Uint64(e[8:16])), Msg: e[20:]}
			if err := t.WriteMsg(msg, false); err != nil {
				return "E"
			}
		}
		return ""
	})
	t.Close()
	b := <-got
	kill(srv)
	if res != "" {
		return res
	}
	return vc.Hex(b)
}

// ---- very long messages: nothing is kept as hex, payloads are a position dependent pattern

// pattern fills b with the bytes [off, off+len(b)) of the payload pattern of a message (seed = its length)
func pattern(b []byte, off int64, seed uint64) {
	i := 0
	for ; i < len(b) && (off+int64(i))%8 != 0; i++ {
		w := (uint64(off+int64(i))/8 + seed) * 0x9e3779b97f4a7c15
		b[i] = byte(w >> (8 * (uint64(off+int64(i)) % 8)))
	}
	k := uint64(off+int64(i))/8 + seed
	for ; i+8 <= len(b); i += 8 {
		binary.LittleEndian.PutUint64(b[i:], k*0x9e3779b97f4a7c15)
		k++
	}
	for ; i < len(b); i++ {
		w := (uint64(off+int64(i))/8 + seed) * 0x9e3779b97f4a7c15
		b[i] = byte(w >> (8 * (uint64(off+int64(i)) % 8)))
	}
}

// patternOK checks b against the pattern, block-wise (no second copy of a 2 GiB message)
func patternOK(b []byte, off int64, seed uint64) bool {
	tmp := make([]byte, 1<<16)
	for len(b) > 0 {
		n := len(tmp)
		if n > len(b) {
			n = len(b)
		}
		pattern(tmp[:n], off, seed)
		if string(tmp[:n]) != string(b[:n]) {
			return false
		}
		b = b[n:]
		off += int64(n)
	}
	return true
}

// headerSink is the connection of a header-only write case: remembers the first bytes, counts the rest and
// checks that everything behind the header is the (all-zero) message
type headerSink struct {
	first   []byte
	n       int64
	nonzero bool
}

func (c *headerSink) Write(p []byte) (int, error) {
	if len(c.first) < 24 {
		k := 24 - len(c.first)
		if k > len(p) {
			k = len(p)
		}
		c.first = append(c.first, p[:k]...)
	}
	if c.n >= 24 && len(p) <= 1<<28 {
		for _, x := range p {
			if x != 0 {
				c.nonzero = true
				break
			}
		}
	}
	c.n += int64(len(p))
	return len(p), nil
}
func (c *headerSink) Read(p []byte) (int, error) { return 0, io.EOF }

// runH: WriteMsg of an n-byte all-zero message into a counting connection: O:<header hex> | E
func runH(v string, n int64) string {
	return withTimeout(120*time.Second, func() string {
		cp := &headerSink{}
		m, err := mode.New(variantOf(v), cp)
		if err != nil {
			return "E"
		}
		a := cp.n
		cp.first = nil
		cp.n = 0
		msg := make([]byte, n)
		if err := m.WriteMsg(msg); err != nil {
			if cp.n != 0 {
				return fmt.Sprintf("E-AFTER-WRITING-%d-BYTES", cp.n)
			}
			return "E"
		}
		_ = a
		h := cp.n - n
		if h < 0 || h > 24 {
			return fmt.Sprintf("O:?:wrote-%d-bytes-for-%d", cp.n, n)
		}
		for _, x := range cp.first[h:] {
			if x != 0 {
				cp.nonzero = true
			}
		}
		if cp.nonzero {
			return "O:" + vc.Hex(cp.first[:h]) + ":PAYLOAD-CHANGED"
		}
		return "O:" + vc.Hex(cp.first[:h])
	})
}

func showBig(v string, lens []int64, ok []bool, end string) string {
	l := make([]string, len(lens))
	for i := range lens {
		st := "ok"
		if !ok[i] {
			st = "CHANGED"
		}
		l[i] = fmt.Sprintf("len=%d/%s", lens[i], st)
	}
	return fmt.Sprintf("%s|%d:%s|%s", v, len(lens), strings.Join(l, ","), end)
}

// runB: messages of up to 2^31 bytes end to end.  (w) the real writer (NewTCP + mode.New + WriteMsg) sends
// pattern messages, the peer checks announcement, reference headers and payloads while reading;
// (r) the peer streams the reference stream in random segments of 1 B .. 256 KiB (with barriers) to the real
// reader (NewTCP + Detect + ReadMsg until error), every delivered message is checked against the pattern.
func (p *peer) runB(v string, lens []int64, r *vc.Rng) string {
	w := func() string {
		ctx, cancel := context.WithCancel(context.Background())
		defer cancel()
		c, err := transport.NewTCP(transport.TCPConnConfig{Ctx: ctx, Host: p.addr})
		if err != nil {
			return "DIAL-ERROR"
		}
		srv := p.accept()
		verdict := make(chan string, 1)
		go func() {
			srv.SetReadDeadline(time.Now().Add(300 * time.Second))
			rd := bufio.NewReaderSize(srv, 1<<20)
			want := refAnnounce(v)
			got := make([]byte, len(want))
			if _, err := io.ReadFull(rd, got); err != nil || string(got) != string(want) {
				verdict <- "bad-announce"
				return
			}
			buf := make([]byte, 1<<16)
			for i, n := range lens {
				h := refHeader(v, int(n))
				gh := make([]byte, len(h))
				if _, err := io.ReadFull(rd, gh); err != nil || string(gh) != string(h) {
					verdict <- fmt.Sprintf("bad-header@msg%d:%x", i, gh)
					return
				}
				for off := int64(0); off < n; {
					k := int64(len(buf))
					if k > n-off {
						k = n - off
					}
					if _, err := io.ReadFull(rd, buf[:k]); err != nil {
						verdict <- fmt.Sprintf("short@msg%d+%d", i, off)
						return
					}
					if !patternOK(buf[:k], off, uint64(n)) {
						verdict <- fmt.Sprintf("payload-changed@msg%d+%d", i, off)
						return
					}
					off += k
				}
			}
			if _, err := rd.ReadByte(); err != io.EOF {
				verdict <- "trailing-bytes"
				return
			}
			verdict <- "ok"
		}()
		res := withTimeout(300*time.Second, func() string {
			m, err := mode.New(variantOf(v), c)
			if err != nil {
				return "E"
			}
			for _, n := range lens {
				msg := make([]byte, n)
				pattern(msg, 0, uint64(n))
				if err := m.WriteMsg(msg); err != nil {
					return "E"
				}
			}
			return ""
		})
		c.Close()
		var vd string
		select {
		case vd = <-verdict:
		case <-time.After(300 * time.Second):
			vd = "HANG"
		}
		kill(srv)
		if res != "" {
			return res
		}
		return vd
	}()
	runtime.GC()

	ctx, cancel := context.WithCancel(context.Background())
	defer cancel()
	c, err := transport.NewTCP(transport.TCPConnConfig{Ctx: ctx, Host: p.addr})
	if err != nil {
		return "w:" + w + "|r:DIAL-ERROR"
	}
	srv := p.accept()
	stop := make(chan struct{})
	var wg sync.WaitGroup
	wg.Add(1)
	go func() {
		defer wg.Done()
		rfd := p.readerFD(srv.RemoteAddr().(*net.TCPAddr).Port)
		buf := make([]byte, 1<<18)
		pending := append([]byte{}, refAnnounce(v)...) // bytes that must go out before the next payload block
		send := func(b []byte) bool {
			// cut b into random segments
			for len(b) > 0 {
				k := 1 + r.Intn(len(buf))
				if r.Intn(4) == 0 {
					k = 1 + r.Intn(16)
				}
				if k > len(b) {
					k = len(b)
				}
				if _, err := srv.Write(b[:k]); err != nil {
					return false
				}
				p.barrier(srv, rfd, stop)
				b = b[k:]
			}
			return true
		}
		for _, n := range lens {
			pending = append(pending, refHeader(v, int(n))...)
			for off := int64(0); off < n || len(pending) > 0; {
				k := int64(len(buf) - len(pending))
				if k > n-off {
					k = n - off
				}
				blk := append(pending, make([]byte, k)...)
				pattern(blk[len(pending):], off, uint64(n))
				pending = nil
				if !send(blk) {
					return
				}
				off += k
			}
		}
		if len(pending) > 0 && !send(pending) {
			return
		}
		srv.CloseWrite()
	}()
	var total int64
	for _, n := range lens {
		total += n
	}
	res := withTimeout(120*time.Second+time.Duration(total/1000)*time.Microsecond*50, func() string {
		m, err := mode.Detect(c)
		if err != nil {
			return "-|0:|" + errKind(err)
		}
		vv := "?"
		if x, err := mode.GetVariant(m); err == nil {
			if x == mode.Abridged {
				vv = "A"
			} else if x == mode.Intermediate {
				vv = "I"
			}
		}
		var ls []int64
		var oks []bool
		for {
			msg, err := m.ReadMsg()
			if err != nil {
				return showBig(vv, ls, oks, errKind(err))
			}
			ls = append(ls, int64(len(msg)))
			oks = append(oks, patternOK(msg, 0, uint64(len(msg))))
			msg = nil
			if len(ls) > len(lens)+2 {
				return showBig(vv, ls, oks, "RUNAWAY")
			}
		}
	})
	close(stop)
	kill(srv)
	wg.Wait()
	c.Close()
	runtime.GC()
	return "w:" + w + "|r:" + res
}

func expectB(v string, lens []int64) string {
	oks := make([]bool, len(lens))
	for i := range oks {
		oks[i] = true
	}
	return "w:ok|r:" + showBig(v, lens, oks, "EOF")
}

// ---- hostile length fields, in a child process with a limited address space

func heapAllocs() uint64 {
	s := []metrics.Sample{{Name: "/gc/heap/allocs:bytes"}}
	metrics.Read(s)
	if s[0].Value.Kind() == metrics.KindUint64 {
		return s[0].Value.Uint64()
	}
	return 0
}

func memAvailableMB() int {
	b, err := os.ReadFile("/proc/meminfo")
	if err != nil {
		return 0
	}
	for _, l := range strings.Split(string(b), "\n") {
		if strings.HasPrefix(l, "MemAvailable:") {
			f := strings.Fields(l)
			if len(f) >= 2 {
				n, _ := strconv.Atoi(f[1])
				return n >> 10
			}
		}
	}
	return 0
}

func vmHWM() int {
	b, err := os.ReadFile("/proc/self/status")
	if err != nil {
		return -1
	}
	for _, l := range strings.Split(string(b), "\n") {
		if strings.HasPrefix(l, "VmHWM:") {
			f := strings.Fields(l)
			if len(f) >= 2 {
				n, _ := strconv.Atoi(f[1])
				return n
			}
		}
	}
	return -1
}

// hostileChild: RLIMIT_AS = limitMB, then the ordinary reader on a stream whose last header announces far
// more than follows.  Prints RESULT \t <delivery> \t <heap bytes allocated during the reads> \t <VmHWM kB>.
func hostileChild(streamHex string, limitMB int) {
	lim := syscall.Rlimit{Cur: uint64(limitMB) << 20, Max: uint64(limitMB) << 20}
	if err := syscall.Setrlimit(syscall.RLIMIT_AS, &lim); err != nil {
		fmt.Println("RESULT\tSETRLIMIT-FAILED\t0\t0")
		return
	}
	p := newPeer()
	a0 := heapAllocs()
	res := p.runR(vc.UnHex(streamHex), nil, false)
	fmt.Printf("RESULT\t%s\t%d\t%d\n", res, heapAllocs()-a0, vmHWM())
}

type hostileRec struct {
	Mode        string `json:"mode"`
	Announced   int64  `json:"announced_bytes"`
	InputBytes  int    `json:"input_bytes"`
	Tail        int    `json:"bytes_after_header"`
	LimitMB     int    `json:"rlimit_as_mb"`
	Outcome     string `json:"outcome"` // delivery string, or "fatal error: out of memory", or "crash: ..."
	HeapAllocs  int64  `json:"heap_bytes_allocated"`
	PeakRSSkB   int    `json:"peak_rss_kb"`
	StreamHex   string `json:"stream_hex"`
	survived    bool
	deliveryStr string
}

func runHostile(stream []byte, limitMB int) (rec hostileRec) {
	rec.StreamHex = vc.Hex(stream)
	rec.InputBytes = len(stream)
	rec.LimitMB = limitMB
	cmd := exec.Command(os.Args[0], "hostile", vc.Hex(stream), strconv.Itoa(limitMB))
	cmd.Env = append(os.Environ(), "GOMAXPROCS=2")
	var errb strings.Builder
	cmd.Stderr = &errb
	done := make(chan struct{})
	var out []byte
	var err error
	go func() { out, err = cmd.Output(); close(done) }()
	select {
	case <-done:
	case <-time.After(60 * time.Second):
		if cmd.Process != nil {
			cmd.Process.Kill()
		}
		<-done
		rec.Outcome = "child did not finish in 60 s"
		return
	}
	for _, l := range strings.Split(string(out), "\n") {
		f := strings.Split(l, "\t")
		if len(f) == 4 && f[0] == "RESULT" {
			rec.Outcome = f[1]
			rec.deliveryStr = f[1]
			rec.survived = true
			rec.HeapAllocs, _ = strconv.ParseInt(f[2], 10, 64)
			rec.PeakRSSkB, _ = strconv.Atoi(f[3])
			return
		}
	}
	if strings.Contains(errb.String(), "out of memory") {
		rec.Outcome = "fatal error: out of memory (the process dies, no error is returned)"
	} else {
		rec.Outcome = fmt.Sprintf("crash: %v %s", err, strings.SplitN(errb.String(), "\n", 2)[0])
	}
	return
}

// ---- read deadline and cancellation (outside the model: recorded, and checked for silent corruption only)

type deadlineRec struct {
	Scenario string   `json:"scenario"`
	Mode     string   `json:"mode"`
	Reads    []string `json:"reads"` // what each successive ReadMsg call gave
	Corrupt  bool     `json:"delivered_something_never_sent"`
	Note     string   `json:"note"`
	// scenario "slow-but-in-time": the longest pause the writer really made (ms) and whether the reader lost anything
	MaxGapMs int  `json:"longest_pause_ms,omitempty"`
	Lost     bool `json:"lost_a_frame_although_every_pause_was_shorter_than_the_deadline,omitempty"`
}

// runD: scenario "deadline-midframe": Timeout 150 ms, the peer stalls 500 ms in the middle of a frame and then
// continues; "deadline-idle": the stall is between frames; "cancel-midframe": the context is cancelled while the
// reader waits for the rest of a frame.  Each ReadMsg call gets a 1.5 s watchdog.
func (p *peer) runD(scenario, v string, r *vc.Rng) deadlineRec {
	rec := deadlineRec{Scenario: scenario, Mode: v}
	ctx, cancel := context.WithCancel(context.Background())
	defer cancel()
	cfg := transport.TCPConnConfig{Ctx: ctx, Host: p.addr}
	if scenario != "cancel-midframe" {
		cfg.Timeout = 150 * time.Millisecond
	}
	t, err := transport.NewTransport(informator{}, cfg, variantOf(v))
	if err != nil {
		rec.Note = "dial error"
		return rec
	}
	srv := p.accept()
	ann := make([]byte, len(refAnnounce(v)))
	srv.SetReadDeadline(time.Now().Add(5 * time.Second))
	io.ReadFull(srv, ann)
	e1 := envelope(int64(r.U64()>>3<<2)|1, r.Bytes(40))
	e2 := envelope(int64(r.U64()>>3<<2)|1, r.Bytes(24))
	cutAt := -1
	if scenario == "deadline-midframe-embedded" {
		// the second half of frame 1 is, byte for byte, a frame of its own (a valid envelope behind a valid length header):
		// a reader that has lost the first half - bytes it had consumed before its deadline - and goes on reading takes
		// it for a message of the peer.  What is delivered must be what was sent, or nothing.
		e3 := envelope(int64(r.U64()>>3<<2)|1, []byte("INJECTED-NEVER-SENT-"))
		inner := refFrames(v, [][]byte{e3})
		pre := r.Bytes(16 + (4-len(inner)%4)%4)
		e1 = envelope(int64(r.U64()>>3<<2)|1, append(pre, inner...))
		cutAt = len(refFrames(v, [][]byte{e1})) - len(inner)
	}
	f1, f2 := refFrames(v, [][]byte{e1}), refFrames(v, [][]byte{e2})
	go func() {
		switch scenario {
		case "deadline-midframe":
			srv.Write(f1[:len(f1)/2])
			time.Sleep(500 * time.Millisecond)
			srv.Write(f1[len(f1)/2:])
		case "deadline-midframe-embedded":
			srv.Write(f1[:cutAt])
			time.Sleep(230 * time.Millisecond) // longer than one read deadline (150 ms), shorter than two
			srv.Write(f1[cutAt:])
		case "slow-but-in-time":
			// silence, then frame 1 in three pieces: every pause (60 ms) is well inside the read deadline (150 ms), all of them
			// together (240 ms) are not - a deadline has to count from the read it belongs to, not from an earlier one
			maxGap := time.Duration(0)
			last := time.Now()
			pause := func() {
				time.Sleep(60 * time.Millisecond)
				if g := time.Since(last); g > maxGap {
					maxGap = g
				}
				last = time.Now()
			}
			pause()
			k := 4 + (len(f1)-4)/3
			if v == "A" {
				k = 1 + (len(f1)-1)/3
			}
			srv.Write(f1[:k])
			pause()
			srv.Write(f1[k : k+(len(f1)-k)/2])
			pause()
			srv.Write(f1[k+(len(f1)-k)/2:])
			pause()
			rec.MaxGapMs = int(maxGap / time.Millisecond)
		case "deadline-idle":
			time.Sleep(500 * time.Millisecond)
			srv.Write(f1)
		case "cancel-midframe":
			srv.Write(f1[:len(f1)/2])
			time.Sleep(150 * time.Millisecond)
			cancel()
			time.Sleep(150 * time.Millisecond)
			srv.Write(f1[len(f1)/2:])
		}
		srv.Write(f2)
		srv.CloseWrite()
	}()
	for i := 0; i < 6; i++ {
		got := withTimeout(1500*time.Millisecond, func() string {
			msg, err := t.ReadMsg()
			switch {
			case err == nil:
				if m, ok := msg.(*messages.Unencrypted); ok {
					e := envelope(m.MsgID, m.Msg)
					if string(e) == string(e1) {
						return "frame1"
					}
					if string(e) == string(e2) {
						return "frame2"
					}
					return "CORRUPT:" + vc.Hex(e)
				}
				return fmt.Sprintf("CORRUPT:%T", msg)
			case err == io.EOF:
				return "EOF"
			case err == context.Canceled:
				return "context.Canceled (unwrapped)"
			default:
				if _, ok := err.(transport.ErrCode); ok {
					return "CORRUPT:code"
				}
				if parserRejected(err) {
					return "CORRUPT:parser rejected a payload"
				}
				return "error (other)"
			}
		})
		if got == "HANG" {
			got = "blocks (no return within 1.5 s)"
		}
		rec.Reads = append(rec.Reads, got)
		if strings.HasPrefix(got, "CORRUPT") {
			rec.Corrupt = true
		}
		if strings.HasPrefix(got, "blocks") || got == "EOF" {
			break
		}
	}
	if scenario == "slow-but-in-time" {
		want := []string{"frame1", "frame2", "EOF"}
		rec.Lost = strings.Join(rec.Reads, ",") != strings.Join(want, ",")
	}
	kill(srv)
	t.Close()
	return rec
}

// byte pipe for mode-level write cases
type capture struct{ buf []byte }

func (c *capture) Write(p []byte) (int, error) { c.buf = append(c.buf, p...); return len(p), nil }
func (c *capture) Read(p []byte) (int, error)  { return 0, io.EOF }

func runW(v string, msg []byte) (announce string, res string) {
	cp := &capture{}
	res = withTimeout(30*time.Second, func() string {
		m, err := mode.New(variantOf(v), cp)
		if err != nil {
			return "E"
		}
		announce = vc.Hex(cp.buf)
		n := len(cp.buf)
		if err := m.WriteMsg(msg); err != nil {
			return "E"
		}
		return "O:" + vc.Hex(cp.buf[n:])
	})
	return
}

// selftest: a plain reader records the sizes its Read calls return while the peer feeds a composition
// with barriers; they must be exactly the composition.
func (p *peer) selftest(stream []byte, cuts []int) bool {
	conn, err := net.Dial("tcp4", p.addr)
	if err != nil {
		return false
	}
	defer conn.Close()
	srv := p.accept()
	stop := make(chan struct{})
	done := make(chan []int, 1)
	go func() {
		var sizes []int
		buf := make([]byte, 1<<16)
		for {
			n, err := conn.Read(buf)
			if n > 0 {
				sizes = append(sizes, n)
			}
			if err != nil {
				break
			}
		}
		done <- sizes
	}()
	chunks := chunksOf(stream, cuts)
	p.feed(srv, chunks, true, stop)
	var sizes []int
	select {
	case sizes = <-done:
	case <-time.After(10 * time.Second):
	}
	close(stop)
	kill(srv)
	var want []int
	for _, c := range chunks {
		if len(c) > 0 {
			want = append(want, len(c))
		}
	}
	if len(sizes) != len(want) {
		return false
	}
	for i := range want {
		if sizes[i] != want[i] {
			return false
		}
	}
	return true
}

// ------------------------------------------------------------------ case generation

type job struct {
	kind     string // R T F W A S(selftest)
	v        string
	stream   []byte
	cuts     []int
	barrier  bool
	msgs     [][]byte
	expect   string
	class    string
	lens     []int64  // H (one length), B (message lengths)
	unparsed [][]byte // T: payloads the message parser is expected to refuse (compared as "P")
	limitMB  int      // X
	scenario string   // D
	rng      *vc.Rng
	// results
	impl    string
	ann     string
	ok      bool
	bfail   int  // barriers that gave up while this case ran
	retried bool // the case was run again alone (barrier give-up / HANG confirmation)
	hostile hostileRec
	dl      deadlineRec
}

type gen struct {
	r    *vc.Rng
	jobs []*job
	seen map[string]bool
	stat map[string]int
	tier string

	fixedLimit  int
	unsegmented []string
}

func (g *gen) add(j *job) {
	key := j.kind + "|" + j.v + "|" + string(j.stream) + "|" + sizesText(j.cuts) + "|" + hexList(j.msgs) + "|" + fmt.Sprint(j.lens, j.scenario, j.class == "transport-writemsg")
	if j.kind != "S" {
		if g.seen[key] {
			return
		}
		g.seen[key] = true
	}
	g.stat["cases:"+j.kind+":"+j.class]++
	g.jobs = append(g.jobs, j)
}

func (g *gen) msg(n int) []byte { return g.r.Bytes(n) }

// all compositions of n (2^(n-1)); the last part is left implicit (model and harness add the remainder)
func compositions(n int) [][]int {
	if n == 0 {
		return [][]int{nil}
	}
	var res [][]int
	for mask := 0; mask < 1<<(uint(n)-1); mask++ {
		var parts []int
		last := 0
		for i := 1; i < n; i++ {
			if mask&(1<<(uint(i)-1)) != 0 {
				parts = append(parts, i-last)
				last = i
			}
		}
		parts = append(parts, n-last)
		res = append(res, parts)
	}
	return res
}

func ones(n int) []int {
	r := make([]int, n)
	for i := range r {
		r[i] = 1
	}
	return r
}

func fixed(total, k int) []int {
	var r []int
	for off := 0; off < total; off += k {
		n := k
		if off+n > total {
			n = total - off
		}
		r = append(r, n)
	}
	return r
}

func (g *gen) randomCuts(total, k int) []int {
	if total <= 1 {
		return []int{total}
	}
	pts := map[int]bool{}
	for i := 0; i < k; i++ {
		pts[1+g.r.Intn(total-1)] = true
	}
	var ps []int
	for p := range pts {
		ps = append(ps, p)
	}
	sort.Ints(ps)
	var r []int
	last := 0
	for _, p := range ps {
		r = append(r, p-last)
		last = p
	}
	return append(r, total-last)
}

// cuts at the given absolute offsets (plus jitter d), used to split exactly at / around frame borders
func cutsAt(total int, offs []int, d int) []int {
	pts := map[int]bool{}
	for _, o := range offs {
		p := o + d
		if p > 0 && p < total {
			pts[p] = true
		}
	}
	var ps []int
	for p := range pts {
		ps = append(ps, p)
	}
	sort.Ints(ps)
	var r []int
	last := 0
	for _, p := range ps {
		r = append(r, p-last)
		last = p
	}
	return append(r, total-last)
}

func frameOffsets(v string, withAnnounce bool, msgs [][]byte) []int {
	var offs []int
	off := 0
	if withAnnounce {
		off = len(refAnnounce(v))
		offs = append(offs, off)
	}
	for _, m := range msgs {
		off += len(refHeader(v, len(m)))
		offs = append(offs, off) // header | body
		off += len(m)
		offs = append(offs, off) // frame | next frame
	}
	return offs
}

// segmentations of one valid stream
func (g *gen) segmentations(kind, v string, stream []byte, offs []int, expect, class string, oneByteLimit, nRandom int) {
	n := len(stream)
	add := func(cuts []int, barrier bool, cl string) {
		g.add(&job{kind: kind, v: v, stream: stream, cuts: cuts, barrier: barrier, expect: expect, class: class + "/" + cl})
	}
	add(nil, false, "coalesced")
	if n == 0 {
		return
	}
	if n > 1<<16 && g.tier != "thorough" {
		// quick tier: the biggest streams get three segmentations only
		add(g.randomCuts(n, 1+g.r.Intn(40)), true, "random")
		add(fixed(n, 1460), false, "fixed1460-nobarrier")
		return
	}
	if n <= oneByteLimit {
		add(ones(n), true, "1-byte")
	}
	big := n > 1<<16
	for _, d := range []int{0, 1, -1} {
		if big && d != 0 {
			continue
		}
		c := cutsAt(n, offs, d)
		if len(c) <= 4000 {
			add(c, true, "frame-border"+strconv.Itoa(d))
		}
	}
	if big && nRandom > 3 {
		nRandom = 3
	}
	for i := 0; i < nRandom; i++ {
		k := 1 + g.r.Intn(12)
		if g.r.Intn(3) == 0 {
			k = 1 + g.r.Intn(60)
		}
		add(g.randomCuts(n, k), true, "random")
	}
	for _, k := range []int{2, 3, 5, 1460} {
		if n/k <= g.fixedLimit && n > k {
			add(fixed(n, k), true, "fixed"+strconv.Itoa(k))
		}
	}
	if n > 1460 {
		add(fixed(n, 1460), false, "fixed1460-nobarrier")
	}
}

var boundaryLens = []int{0, 4, 8, 12, 16, 20, 24, 28, 100, 252, 256, 496, 500, 504, 508, 512, 516, 520, 1016, 1020, 1024, 2048, 4096}

func (g *gen) msgList(lens []int) [][]byte {
	var ms [][]byte
	for _, n := range lens {
		ms = append(ms, g.msg(n))
	}
	return ms
}

func (g *gen) generate() {
	thorough := g.tier == "thorough"
	oneByteLimit := 1200
	nRandom := 4
	g.fixedLimit = 400
	if thorough {
		oneByteLimit = 70000
		nRandom = 16
		g.fixedLimit = 4000
	}

	// --- announcements and single WriteMsg calls over a byte pipe
	for _, v := range []string{"A", "I"} {
		g.add(&job{kind: "A", v: v, class: "announce"})
		var lens []int
		for n := 0; n <= 40; n++ {
			lens = append(lens, n)
		}
		for n := 490; n <= 530; n++ {
			lens = append(lens, n)
		}
		for n := 1010; n <= 1030; n++ {
			lens = append(lens, n)
		}
		lens = append(lens, 4096, 65532, 65536, 65540, 1<<20)
		if thorough {
			lens = append(lens, 1<<20+4, 1<<22)
		}
		for i := 0; i < 20; i++ {
			lens = append(lens, g.r.Intn(3000))
		}
		for _, n := range lens {
			g.add(&job{kind: "W", v: v, msgs: [][]byte{g.msg(n)}, class: "writemsg"})
		}
	}

	// --- message lists: written by the real writer over TCP (F), read back under many segmentations (R)
	var lists [][]int
	lists = append(lists, []int{}, []int{0}, []int{4}, []int{0, 0, 0}, []int{504}, []int{508}, []int{512},
		[]int{504, 508}, []int{508, 504}, []int{508, 0, 504, 4, 512}, []int{4, 4, 4, 4, 4, 4, 4, 4}, []int{1020, 1016, 1024})
	for _, n := range boundaryLens {
		lists = append(lists, []int{n})
	}
	nl := 12
	if thorough {
		nl = 60
	}
	for i := 0; i < nl; i++ {
		k := 1 + g.r.Intn(6)
		var l []int
		for j := 0; j < k; j++ {
			l = append(l, boundaryLens[g.r.Intn(len(boundaryLens))])
		}
		lists = append(lists, l)
	}
	for i := 0; i < nl; i++ {
		k := 1 + g.r.Intn(4)
		var l []int
		for j := 0; j < k; j++ {
			l = append(l, 4*g.r.Intn(400))
		}
		lists = append(lists, l)
	}
	lists = append(lists, []int{16384}, []int{65536}, []int{4, 1 << 18, 0, 508})
	lists = append(lists, []int{1 << 20})
	if thorough {
		lists = append(lists, []int{1<<20 - 4}, []int{1<<20 + 4}, []int{1 << 20, 4, 1 << 16}, []int{1 << 19, 1 << 19}, []int{1 << 16, 1 << 17, 1 << 18})
	}
	for _, v := range []string{"A", "I"} {
		for _, l := range lists {
			msgs := g.msgList(l)
			g.add(&job{kind: "F", v: v, msgs: msgs, class: "writer-tcp"})
			stream := refWire(v, msgs)
			nr := nRandom
			if len(stream) > 1<<16 && !thorough {
				nr = 2
			}
			g.segmentations("R", "-", stream, frameOffsets(v, true, msgs), showDelivery(v, msgs, "EOF"), "valid", oneByteLimit, nr)
		}
		// intermediate carries lengths that are not a multiple of 4 (the code has no check); abridged refuses them in WriteMsg
		if v == "A" {
			for _, l := range [][]int{{3}, {4, 6, 4}, {510}} {
				g.add(&job{kind: "F", v: v, msgs: g.msgList(l), class: "writer-tcp-refused"})
			}
		}
		if v == "I" {
			for _, l := range [][]int{{1}, {2, 3}, {5, 0, 7}, {509}, {1021, 1}} {
				msgs := g.msgList(l)
				g.add(&job{kind: "F", v: v, msgs: msgs, class: "writer-tcp-unaligned"})
				stream := refWire(v, msgs)
				g.segmentations("R", "-", stream, frameOffsets(v, true, msgs), showDelivery(v, msgs, "EOF"), "valid-unaligned", oneByteLimit, nRandom)
			}
		}
	}

	// --- one connection object used in both directions, every length in a range, a peer that reads late (duplex.go)
	for _, v := range []string{"A", "I"} {
		for _, sc := range []string{
			"duplex:W262144,R508,W4,R1024,W65536,R4,R512,W1048576,R0,R516,W508,R262144,R504",
			"duplex:R1024,W4,R8,W1024,R1048576,W0,R508,W512,R512",
			"duplex:W524288,R1020,R1016,W4,R1024",
			"dense:0-4096", "denseread:0-4096",
			"dense:1440-1480", "dense:8176-8208", "dense:16368-16400", "dense:32752-32784", "dense:65520-65552",
			"denseread:65520-65552",
			"stall:12x1048576:900",
		} {
			g.add(&job{kind: "U", v: v, scenario: sc, class: strings.SplitN(sc, ":", 2)[0]})
		}
	}

	// --- thorough: one byte at a time through a 2^20-byte message (about a minute of barriers)
	if thorough {
		for _, x := range []struct {
			v string
			n int
		}{{"A", 1 << 20}, {"I", 1 << 18}} {
			msgs := g.msgList([]int{x.n})
			stream := refWire(x.v, msgs)
			g.add(&job{kind: "R", v: "-", stream: stream, cuts: ones(len(stream)), barrier: true,
				expect: showDelivery(x.v, msgs, "EOF"), class: "valid/1-byte"})
		}
	}

	// --- every composition of short streams
	maxExh := 14
	short := map[string][][]int{
		"A": {{}, {0}, {0, 0, 0}, {4}, {4, 0}, {0, 4, 4}, {4, 4, 0, 0, 0}},
		"I": {{}, {0}, {4}, {0, 0}, {1, 1}},
	}
	if thorough {
		short["A"] = append(short["A"], [][]int{{8, 0, 0}, {12}, {4, 4}, {4, 0, 4, 0}, {0, 8, 0, 0, 0}}...)
		short["I"] = append(short["I"], [][]int{{2, 0}, {6}, {5}, {2}}...)
	}
	for _, v := range []string{"A", "I"} {
		for _, l := range short[v] {
			msgs := g.msgList(l)
			stream := refWire(v, msgs)
			if len(stream) > maxExh {
				continue
			}
			exp := showDelivery(v, msgs, "EOF")
			for _, comp := range compositions(len(stream)) {
				g.add(&job{kind: "R", v: "-", stream: stream, cuts: comp, barrier: true, expect: exp, class: "exhaustive"})
			}
		}
	}

	// --- transport level: error codes and unencrypted envelopes
	codes := []int64{-404, -429, -444, 404, 0, 1, -1, 2147483647, -2147483648, -403}
	type tevt struct {
		code   bool
		c      int64
		data   []byte
		expect string
	}
	mkCode := func(c int64) tevt {
		b := make([]byte, 4)
		binary.LittleEndian.PutUint32(b, uint32(int32(c)))
		return tevt{code: true, c: c, data: b, expect: "C" + strconv.FormatInt(c, 10)}
	}
	mkData := func(n int) tevt {
		id := int64(g.r.U64()>>3<<2) | 1
		if g.r.Bool() {
			id |= 2
		}
		e := envelope(id, g.msg(n))
		return tevt{data: e, expect: "D" + vc.Hex(e)}
	}
	var tlists [][]tevt
	for _, c := range codes {
		tlists = append(tlists, []tevt{mkCode(c)})
	}
	tlists = append(tlists, []tevt{}, []tevt{mkCode(-404), mkCode(-429)}, []tevt{mkData(0)}, []tevt{mkData(4), mkCode(-404), mkData(488)},
		[]tevt{mkData(484), mkData(488), mkData(492)}, []tevt{mkCode(-404), mkData(40), mkCode(-444), mkCode(-1), mkData(1000)})
	nt := 6
	if thorough {
		nt = 40
	}
	for i := 0; i < nt; i++ {
		k := 1 + g.r.Intn(5)
		var l []tevt
		for j := 0; j < k; j++ {
			if g.r.Intn(3) == 0 {
				l = append(l, mkCode(codes[g.r.Intn(len(codes))]))
			} else if g.r.Intn(4) == 0 {
				l = append(l, mkCode(int64(int32(g.r.U64()))))
			} else {
				l = append(l, mkData(4*g.r.Intn(300)))
			}
		}
		tlists = append(tlists, l)
	}
	tlists = append(tlists, []tevt{mkData(1 << 16), mkCode(-404)})
	for _, v := range []string{"A", "I"} {
		for _, l := range tlists {
			var msgs [][]byte
			var exps []string
			for _, e := range l {
				msgs = append(msgs, e.data)
				exps = append(exps, e.expect)
			}
			stream := refFrames(v, msgs)
			exp := fmt.Sprintf("%d:%s|EOF", len(exps), strings.Join(exps, ","))
			if len(stream) <= maxExh && len(stream) > 0 {
				for _, comp := range compositions(len(stream)) {
					g.add(&job{kind: "T", v: v, stream: stream, cuts: comp, barrier: true, expect: exp, class: "exhaustive"})
				}
			}
			g.segmentations("T", v, stream, frameOffsets(v, false, msgs), exp, "valid", oneByteLimit, nRandom)
		}
	}

	// --- streams that are not what a writer produces: every prefix of valid streams, wrong announcements,
	//     trailing garbage with small length fields.  Expectation comes from the model only.
	for _, v := range []string{"A", "I"} {
		for _, l := range [][]int{{4, 0, 8}, {508, 4}, {0, 512}} {
			msgs := g.msgList(l)
			stream := refWire(v, msgs)
			step := 1
			if len(stream) > 64 {
				step = 1 + len(stream)/40
			}
			for n := 0; n < len(stream); n += step {
				pre := stream[:n]
				g.add(&job{kind: "R", v: "-", stream: pre, expect: "?", class: "truncated/coalesced"})
				if n > 0 {
					g.add(&job{kind: "R", v: "-", stream: pre, cuts: g.randomCuts(n, 1+g.r.Intn(4)), barrier: true, expect: "?", class: "truncated/random"})
				}
				if n > 0 && n <= 40 {
					g.add(&job{kind: "R", v: "-", stream: pre, cuts: ones(n), barrier: true, expect: "?", class: "truncated/1-byte"})
				}
			}
		}
		// transport level: prefixes of streams of error codes and valid envelopes (a payload that is not a
		// valid envelope would fail in the message parser, which is outside this property)
		for _, l := range [][]tevt{{mkCode(-404), mkData(4), mkCode(-429)}, {mkData(40), mkCode(-1)}} {
			var msgs [][]byte
			for _, e := range l {
				msgs = append(msgs, e.data)
			}
			fr := refFrames(v, msgs)
			for n := 0; n < len(fr); n++ {
				g.add(&job{kind: "T", v: v, stream: fr[:n], cuts: g.randomCuts(n, 1+g.r.Intn(3)), barrier: true, expect: "?", class: "truncated/random"})
				g.add(&job{kind: "T", v: v, stream: fr[:n], expect: "?", class: "truncated/coalesced"})
			}
		}
	}
	for _, h := range []string{"00", "ff", "dd", "dddddddd", "ee", "eeee", "eeeeee", "eeeeeeef", "eeeeee00", "ee000000", "efef", "7f", "ef7f", "ef7f0000",
		"ef7f000000", "ef7f010000", "ef7f01000001020304", "efff", "ef80" + strings.Repeat("ab", 512), "eeeeeeee0100", "eeeeeeee05000000aabbccddee", "eeeeeeee05000000aabbccdd"} {
		s := vc.UnHex(h)
		g.add(&job{kind: "R", v: "-", stream: s, expect: "?", class: "malformed/coalesced"})
		if len(s) <= 9 {
			for _, comp := range compositions(len(s)) {
				g.add(&job{kind: "R", v: "-", stream: s, cuts: comp, barrier: true, expect: "?", class: "malformed/exhaustive"})
			}
		} else {
			g.add(&job{kind: "R", v: "-", stream: s, cuts: g.randomCuts(len(s), 5), barrier: true, expect: "?", class: "malformed/random"})
		}
	}
	nm := 40
	if thorough {
		nm = 400
	}
	for i := 0; i < nm; i++ {
		// frames no writer of this library produces but a reader accepts (abridged count bytes >= 0x80,
		// the 0x7f form with a small count, intermediate lengths that are not a multiple of 4), every body
		// exactly as long as announced so that no reader is ever asked for more than ~1 kB; then the tail is
		// cut off at a random place or a few stray bytes (shorter than any header that asks for much) follow
		v := "A"
		if g.r.Bool() {
			v = "I"
		}
		s := append([]byte{}, refAnnounce(v)...)
		k := 1 + g.r.Intn(5)
		for j := 0; j < k; j++ {
			if v == "A" {
				w := g.r.Intn(256)
				if w == 0x7f || g.r.Intn(5) == 0 {
					w = g.r.Intn(200)
					s = append(s, 0x7f, byte(w), 0, 0)
				} else {
					s = append(s, byte(w))
				}
				s = append(s, g.r.Bytes(4*w)...)
			} else {
				n := g.r.Intn(300)
				s = append(s, byte(n), byte(n>>8), 0, 0)
				s = append(s, g.r.Bytes(n)...)
			}
		}
		switch g.r.Intn(3) {
		case 0:
			s = s[:len(refAnnounce(v))+g.r.Intn(len(s)-len(refAnnounce(v))+1)]
		case 1:
			if v == "A" {
				s = append(s, byte(1+g.r.Intn(100)))
				s = append(s, g.r.Bytes(g.r.Intn(4))...)
			} else {
				s = append(s, g.r.Bytes(g.r.Intn(4))...)
			}
		}
		g.add(&job{kind: "R", v: "-", stream: s, cuts: g.randomCuts(len(s), 1+g.r.Intn(8)), barrier: true, expect: "?", class: "garbage/random"})
		g.add(&job{kind: "R", v: "-", stream: s, expect: "?", class: "garbage/coalesced"})
	}

	// --- many frames back to back
	for _, v := range []string{"A", "I"} {
		var many [][]int
		l64 := make([]int, 64)
		for i := range l64 {
			l64[i] = 4
		}
		l1000 := make([]int, 1000)
		for i := range l1000 {
			l1000[i] = 4 * g.r.Intn(3)
		}
		l200 := make([]int, 200)
		for i := range l200 {
			l200[i] = 4 * g.r.Intn(40)
		}
		many = append(many, l64, l1000, l200)
		for _, l := range many {
			msgs := g.msgList(l)
			g.add(&job{kind: "F", v: v, msgs: msgs, class: "writer-tcp"})
			stream := refWire(v, msgs)
			g.segmentations("R", "-", stream, frameOffsets(v, true, msgs), showDelivery(v, msgs, "EOF"), "many-frames", oneByteLimit, 2)
		}
	}

	// --- transport level: payloads of 0/8/12/16 bytes and encrypted-looking packets (the parser behind
	//     ReadMsg refuses them; what C08 says is that they are NOT error codes and that the connection stays
	//     aligned behind them), 64 and 1000 frames back to back
	{
		enc := func(n int) []byte { // first 8 bytes non-zero: looks like an encrypted packet
			b := g.msg(n)
			if n >= 8 {
				b[0] |= 1
			}
			return b
		}
		zero := func(n int) []byte { return make([]byte, n) }
		type item struct {
			data     []byte
			expect   string
			unparsed bool
		}
		bad := func(b []byte) item { return item{b, "P", true} }
		code := func(c int64) item { e := mkCode(c); return item{e.data, e.expect, false} }
		data := func(n int) item { e := mkData(n); return item{e.data, e.expect, false} }
		var ilists [][]item
		for _, b := range [][]byte{zero(0), zero(8), enc(8), zero(12), enc(12), zero(16), enc(16), enc(20), enc(24), enc(40), enc(1024), zero(40)} {
			ilists = append(ilists, []item{bad(b), code(-404)}, []item{code(-429), bad(b), data(8), bad(b)})
		}
		l64 := []item{}
		for i := 0; i < 64; i++ {
			l64 = append(l64, code(int64(-400-i)))
		}
		l1000 := []item{}
		for i := 0; i < 1000; i++ {
			switch g.r.Intn(5) {
			case 0:
				l1000 = append(l1000, code(int64(int32(g.r.U64()))))
			case 1:
				l1000 = append(l1000, bad(enc(8+4*g.r.Intn(4))))
			case 2:
				l1000 = append(l1000, bad(zero(4*g.r.Intn(4)+8)))
			default:
				l1000 = append(l1000, data(4*g.r.Intn(5)))
			}
		}
		ilists = append(ilists, l64, l1000)
		for _, v := range []string{"A", "I"} {
			for _, l := range ilists {
				var msgs, unp [][]byte
				var exps []string
				for _, e := range l {
					msgs = append(msgs, e.data)
					exps = append(exps, e.expect)
					if e.unparsed {
						unp = append(unp, e.data)
					}
				}
				stream := refFrames(v, msgs)
				exp := fmt.Sprintf("%d:%s|EOF", len(exps), strings.Join(exps, ","))
				offs := frameOffsets(v, false, msgs)
				for _, cuts := range [][]int{nil, cutsAt(len(stream), offs, 0), cutsAt(len(stream), offs, 1), g.randomCuts(len(stream), 1+g.r.Intn(12))} {
					if len(cuts) <= 4000 {
						g.add(&job{kind: "T", v: v, stream: stream, cuts: cuts, barrier: cuts != nil, expect: exp, class: "unparsed-payloads", unparsed: unp})
					}
				}
				if len(stream) <= 60 {
					g.add(&job{kind: "T", v: v, stream: stream, cuts: ones(len(stream)), barrier: true, expect: exp, class: "unparsed-payloads", unparsed: unp})
				}
			}
		}
	}

	// --- the write direction through transport.WriteMsg (unencrypted messages)
	for _, v := range []string{"A", "I"} {
		for _, l := range [][]int{{0}, {4}, {40}, {484}, {488}, {492}, {0, 4, 488, 1000}, {65536}, {3}, {4, 6}} {
			var envs [][]byte
			for _, n := range l {
				envs = append(envs, envelope(int64(g.r.U64()>>3<<2)|1, g.msg(n)))
			}
			g.add(&job{kind: "F", v: v, msgs: envs, class: "transport-writemsg"})
		}
	}

	// --- lengths at the far end of what the formats carry: header-only write cases (H), end-to-end (B)
	{
		hl := map[string][]int64{
			"A": {4 << 22, 4<<24 - 16, 4<<24 - 12, 4<<24 - 8, 4<<24 - 4, 4 << 24, 4<<24 + 4, 4<<24 + 8, 4<<24 + 12, 4<<24 + 16, 4<<24 - 2},
			"I": {1 << 24, 1<<24 + 3, 1<<26 + 1},
		}
		bl := map[string][][]int64{"A": {{4 << 22}}, "I": {{1<<24 + 3}}}
		if thorough {
			hl["A"] = append(hl["A"], 4<<24+4*127, 4<<25)
			bl["A"] = append(bl["A"], []int64{4<<24 - 4}, []int64{4, 4<<24 - 4, 0, 508})
			bl["I"] = append(bl["I"], []int64{1 << 24}, []int64{1<<26 + 1, 5})
			if memAvailableMB() >= 16<<10 {
				// a 2^31-byte message is held three times (writer's copy, ReadMsg's buffer, go-dry's buffer)
				hl["I"] = append(hl["I"], 1<<31, 1<<32-1, 1<<32, 1<<32+4)
				bl["I"] = append(bl["I"], []int64{1 << 31})
			} else {
				g.stat["skipped:messages-of-2^31-bytes-and-more(less-than-16GiB-available)"]++
			}
		}
		for _, v := range []string{"A", "I"} {
			for _, n := range hl[v] {
				g.add(&job{kind: "H", v: v, lens: []int64{n}, class: "huge-header"})
			}
			for _, l := range bl[v] {
				for _, n := range l {
					g.add(&job{kind: "H", v: v, lens: []int64{n}, class: "huge-header"})
				}
				g.add(&job{kind: "B", v: v, lens: l, expect: expectB(v, l), class: "huge-end-to-end", rng: g.r.Fork(uint64(len(g.jobs)))})
			}
		}
	}

	// --- hostile length fields: a header announcing 2^20 .. 2^32-1 bytes, then 0..16 bytes, then FIN; each in a
	//     child process whose address space is limited to 3 GB
	{
		tails := []int{0, 16}
		if thorough {
			tails = []int{0, 1, 16}
		}
		for _, t := range tails {
			for _, n := range []int64{1 << 20, 1 << 24, 1 << 28, 1 << 30, 1 << 31, 1<<32 - 1} {
				s := append(refAnnounce("I"), byte(n), byte(n>>8), byte(n>>16), byte(n>>24))
				s = append(s, g.r.Bytes(t)...)
				g.add(&job{kind: "X", v: "I", stream: s, lens: []int64{n, int64(t)}, limitMB: 3072, class: "hostile-length"})
			}
			for _, w := range []int64{1 << 18, 1 << 22, 1<<24 - 1} {
				s := append(refAnnounce("A"), 0x7f, byte(w), byte(w>>8), byte(w>>16))
				s = append(s, g.r.Bytes(t)...)
				g.add(&job{kind: "X", v: "A", stream: s, lens: []int64{4 * w, int64(t)}, limitMB: 3072, class: "hostile-length"})
			}
		}
	}

	// --- read deadline / cancellation (outside the model)
	for _, sc := range []string{"deadline-midframe", "deadline-midframe-embedded", "deadline-idle", "cancel-midframe", "slow-but-in-time"} {
		for _, v := range []string{"A", "I"} {
			g.add(&job{kind: "D", v: v, scenario: sc, class: "deadline", rng: g.r.Fork(uint64(len(g.jobs)))})
		}
	}

	// --- validation of the segmenting mechanism itself
	ns := 150
	if thorough {
		ns = 1500
	}
	for i := 0; i < ns; i++ {
		n := 1 + g.r.Intn(14)
		if i%10 == 0 {
			n = 100 + g.r.Intn(3000)
		}
		g.add(&job{kind: "S", stream: g.r.Bytes(n), cuts: g.randomCuts(n, 1+g.r.Intn(13)), class: "selftest"})
	}
}

// exec runs one case on this peer
func (p *peer) exec(j *job) {
	p.cur = j.kind + " " + j.class + " " + strconv.Itoa(len(j.stream)) + " " + sizesText(j.cuts)
	if len(p.cur) > 150 {
		p.cur = p.cur[:150]
	}
	p.caseFail = 0
	switch j.kind {
	case "A":
		j.impl, _ = runW(j.v, nil)
	case "W":
		_, j.impl = runW(j.v, j.msgs[0])
	case "F":
		if j.class == "transport-writemsg" {
			j.impl = p.runFT(j.v, j.msgs)
		} else {
			j.impl = p.runF(j.v, j.msgs)
		}
	case "R":
		j.impl = p.runR(j.stream, j.cuts, j.barrier)
	case "T":
		j.impl, j.ann = p.runT(j.v, j.stream, j.cuts, j.barrier)
	case "S":
		j.ok = p.selftest(j.stream, j.cuts)
	case "H":
		j.impl = runH(j.v, j.lens[0])
	case "U":
		j.impl = p.runU(j.v, j.scenario)
	case "B":
		j.impl = p.runB(j.v, j.lens, j.rng)
	case "X":
		j.hostile = runHostile(j.stream, j.limitMB)
	case "D":
		j.dl = p.runD(j.scenario, j.v, j.rng)
		// a loaded machine can stretch the writer's pauses beyond the deadline: such a run says nothing, it is repeated
		for try := 0; try < 4 && j.scenario == "slow-but-in-time" && j.dl.Lost && j.dl.MaxGapMs > 110; try++ {
			j.dl = p.runD(j.scenario, j.v, j.rng)
		}
	}
	j.bfail = p.caseFail
}

// heavy: cases that allocate a lot; they run one after the other on one worker
func heavy(j *job) bool { return j.kind == "H" || j.kind == "B" }

func (g *gen) run(nworkers int) (timeouts, barriers int) {
	var wg sync.WaitGroup
	ch := make(chan *job, 256)
	peers := make([]*peer, nworkers)
	for w := 0; w < nworkers; w++ {
		peers[w] = newPeer()
		wg.Add(1)
		go func(p *peer) {
			defer wg.Done()
			for j := range ch {
				p.exec(j)
			}
		}(peers[w])
	}
	// the memory-heavy cases one after the other on a worker of their own
	hp := newPeer()
	wg.Add(1)
	go func() {
		defer wg.Done()
		for _, j := range g.jobs {
			if heavy(j) {
				hp.exec(j)
			}
		}
	}()
	// the few very long jobs first, so that they overlap with everything else
	for _, j := range g.jobs {
		if len(j.cuts) > 100000 && !heavy(j) {
			ch <- j
		}
	}
	for _, j := range g.jobs {
		if len(j.cuts) <= 100000 && !heavy(j) {
			ch <- j
		}
	}
	close(ch)
	wg.Wait()
	peers = append(peers, hp)
	for _, p := range peers {
		timeouts += p.timeouts
		barriers += p.barriers
		p.ln.Close()
	}

	// Second pass, one case at a time on an otherwise idle process:
	//  - a case in which a barrier gave up was not fed in the segmentation it names: run it again with a
	//    15 s give-up per barrier; if a barrier still gives up the case is UNSEGMENTED (harness trouble, exit 4);
	//  - a HANG verdict is confirmed with four times the time budget before it is reported.
	solo := newPeer()
	solo.giveUp = 15 * time.Second
	hangScale = 4
	for _, j := range g.jobs {
		if len(g.unsegmented) >= 10 {
			break // the mechanism does not work here at all: no point in trying the other cases one by one
		}
		hang := strings.Contains(j.impl, "HANG")
		badSelf := j.kind == "S" && !j.ok
		if j.bfail == 0 && !hang && !badSelf {
			continue
		}
		if hang && g.stat["second_pass:hang_confirmed"] >= 3 {
			// three HANG verdicts were already confirmed alone with four times the budget: the others are reported
			// as they are instead of spending minutes on each
			g.stat["second_pass:hang_not_rerun"]++
			continue
		}
		g.stat["second_pass:cases"]++
		if hang {
			g.stat["second_pass:hang_verdicts"]++
		} else if j.bfail > 0 {
			g.stat["second_pass:barrier_gave_up"]++
		}
		if badSelf {
			g.stat["second_pass:selftest_mismatch"]++
		}
		j.retried = true
		solo.exec(j)
		if strings.Contains(j.impl, "HANG") {
			// the reader stopped consuming: barriers behind that point give up because of the reader, not because
			// of the harness; the case is reported as HANG
			if hang {
				g.stat["second_pass:hang_confirmed"]++
			}
		} else if j.bfail > 0 || (j.kind == "S" && !j.ok) {
			g.stat["second_pass:unsegmented"]++
			g.unsegmented = append(g.unsegmented, solo.cur)
		}
	}
	hangScale = 1
	solo.ln.Close()
	return
}

// "=" stands for "identical to the implementation's result" (keeps the case file small)
func same(expect, impl string) string {
	if expect == impl {
		return "="
	}
	return expect
}

func main() {
	if len(os.Args) < 2 {
		fmt.Fprintln(os.Stderr, "usage: c08 gen <tier> <out> | one ...")
		os.Exit(3)
	}
	switch os.Args[1] {
	case "gen":
		tier, outPath := os.Args[2], os.Args[3]
		g := &gen{r: vc.NewRng(vc.Seed() ^ 0xc08), seen: map[string]bool{}, stat: map[string]int{}, tier: tier}
		g.generate()
		nw := 8
		if s := os.Getenv("C08_WORKERS"); s != "" {
			nw, _ = strconv.Atoi(s)
		}
		t0 := time.Now()
		timeouts, barriers := g.run(nw)
		out := vc.Create(outPath)
		var extra struct {
			Hostile     []hostileRec  `json:"hostile_length_allocation"`
			Deadline    []deadlineRec `json:"read_deadline_behaviour"`
			Unsegmented []string      `json:"unsegmented_cases"`
		}
		selfOK, selfBad := 0, 0
		for i, j := range g.jobs {
			id := strconv.Itoa(i + 1)
			switch j.kind {
			case "A":
				out.Line("A", id, j.v, j.impl)
			case "W":
				out.Line("W", id, j.v, vc.Hex(j.msgs[0]), j.impl)
			case "F":
				out.Line("F", id, j.v, hexList(j.msgs), vc.Hex(refWire(j.v, j.msgs)), j.impl, j.class)
			case "R":
				out.Line("R", id, vc.Hex(j.stream), sizesText(j.cuts), j.impl, same(j.expect, j.impl), j.class)
			case "T":
				unp := "none"
				if len(j.unparsed) > 0 {
					seen := map[string]bool{}
					var l []string
					for _, u := range j.unparsed {
						if h := vc.Hex(u); !seen[h] {
							seen[h] = true
							l = append(l, h)
						}
					}
					unp = strings.Join(l, ",")
				}
				out.Line("T", id, j.v, vc.Hex(j.stream), sizesText(j.cuts), j.impl, same(j.expect, j.impl), j.class, j.ann, unp)
			case "U":
				out.Line("U", id, j.v, j.scenario, j.impl, "ok", j.class)
			case "H":
				out.Line("H", id, j.v, strconv.FormatInt(j.lens[0], 10), j.impl, "O:"+vc.Hex(refHeader(j.v, int(j.lens[0]))))
			case "B":
				var ls []string
				for _, n := range j.lens {
					ls = append(ls, strconv.FormatInt(n, 10))
				}
				out.Line("B", id, j.v, strings.Join(ls, ","), j.impl, j.expect, j.class)
			case "X":
				j.hostile.Mode = j.v
				j.hostile.Announced = j.lens[0]
				j.hostile.Tail = int(j.lens[1])
				extra.Hostile = append(extra.Hostile, j.hostile)
				if j.hostile.survived {
					// the child lived: its delivery goes through the ordinary comparison with the model
					out.Line("R", id, vc.Hex(j.stream), "-", j.hostile.deliveryStr, "?", "hostile-length/coalesced")
				}
			case "D":
				extra.Deadline = append(extra.Deadline, j.dl)
			case "S":
				if j.ok {
					selfOK++
				} else {
					selfBad++
				}
			}
		}
		out.Close()
		keys := make([]string, 0, len(g.stat))
		for k := range g.stat {
			keys = append(keys, k)
		}
		sort.Strings(keys)
		for _, k := range keys {
			fmt.Printf("stat\t%s\t%d\n", k, g.stat[k])
		}
		fmt.Printf("stat\tselftest_ok\t%d\n", selfOK)
		fmt.Printf("stat\tselftest_bad\t%d\n", selfBad)
		fmt.Printf("stat\tbarriers\t%d\n", barriers)
		fmt.Printf("stat\tbarrier_timeouts\t%d\n", timeouts)
		fmt.Printf("stat\timpl_run_ms\t%d\n", time.Since(t0).Milliseconds())
		extra.Unsegmented = g.unsegmented
		eb, _ := json.MarshalIndent(extra, "", " ")
		os.WriteFile(outPath+".extra.json", eb, 0o644)
		if len(g.unsegmented) > 0 {
			// some case could not be fed in the segmentation it names even alone with a 15 s give-up:
			// the harness cannot exercise what it claims - no verdict
			fmt.Fprintf(os.Stderr, "C08 harness: %d case(s) could not be segmented as requested, e.g. %s\n", len(g.unsegmented), g.unsegmented[0])
			os.Exit(4)
		}
	case "hostile":
		mb, _ := strconv.Atoi(os.Args[3])
		hostileChild(os.Args[2], mb)
	case "one":
		p := newPeer()
		// an argument "@path" is read from that file (hex of a 1 MB stream does not fit an argv entry)
		arg := func(i int) string {
			if i >= len(os.Args) {
				return ""
			}
			a := os.Args[i]
			if strings.HasPrefix(a, "@") {
				b, err := os.ReadFile(a[1:])
				if err != nil {
					fmt.Fprintln(os.Stderr, err)
					os.Exit(3)
				}
				return strings.TrimSpace(string(b))
			}
			return a
		}
		switch os.Args[2] {
		case "R":
			fmt.Println(p.runR(vc.UnHex(arg(3)), parseSizes(arg(4)), true))
		case "T":
			r, ann := p.runT(arg(3), vc.UnHex(arg(4)), parseSizes(arg(5)), true)
			fmt.Println(r + "\t" + ann)
		case "W":
			ann, r := runW(arg(3), vc.UnHex(arg(4)))
			fmt.Println(r + "\t" + ann)
		case "U":
			fmt.Println(p.runU(arg(3), arg(4)))
		case "F":
			fmt.Println(p.runF(arg(3), unhexList(arg(4))))
		case "FT":
			fmt.Println(p.runFT(arg(3), unhexList(arg(4))))
		case "H":
			n, _ := strconv.ParseInt(arg(4), 10, 64)
			fmt.Println(runH(arg(3), n))
		case "B":
			var lens []int64
			for _, x := range strings.Split(arg(4), ",") {
				n, _ := strconv.ParseInt(x, 10, 64)
				lens = append(lens, n)
			}
			fmt.Println(p.runB(arg(3), lens, vc.NewRng(vc.Seed())))
		}
	default:
		os.Exit(3)
	}
}
