// Harness for property C08 (transport framing under arbitrary segmentation).
//
//	gen <tier> <cases-out>      generate cases, run the implementation over real loopback TCP, write case lines
//	one R <stream> <sizes>      replay one mode-level read case            (prints the implementation's result)
//	one T <v> <stream> <sizes>  replay one transport-level read case
//	one W <v> <msg>             replay one WriteMsg case
//	one F <v> <m1,m2,...>       replay one whole-stream write case (mode.New + WriteMsg* over TCP)
//
// The code under test always owns a real TCP connection made by transport.NewTCP (tcpConn: exact-count
// reads through go-dry CancelableReader).  The harness is the peer: it accepts the connection on
// 127.0.0.1 and forwards the byte stream in the chosen chunk sizes.  Between two chunks it waits until
// the kernel reports that everything sent so far was acknowledged AND read by the application
// (ioctl SIOCOUTQ of the sending socket = 0 and SIOCINQ of the receiving socket = 0), so the
// reader really sees the stream arrive in exactly these pieces; the mechanism is validated on every
// run by a plain recording reader (selftest).
//
// case lines (tab separated; the model driver reads only the leading fields, see coq/extract/C08/driver.ml):
//
//	A id v impl                          announcement written by mode.New
//	W id v msg impl                      impl = O:<hex written by WriteMsg> | E | PANIC
//	F id v m1,m2,.. ref impl             ref = harness reference framing, impl = bytes the real writer sent over TCP
//	R id stream sizes impl expect class  impl/expect = <A|I|->|<n>:<m1,..>|<EOF|OTHER>   expect "?" if not a valid stream, "=" if equal to impl
//	T id v stream sizes impl expect class announce   impl/expect = <n>:<C<dec>|D<hex>,..>|<EOF|OTHER>
package main

import (
	"context"
	"encoding/binary"
	"fmt"
	"io"
	"net"
	"os"
	"runtime"
	"sort"
	"strconv"
	"strings"
	"sync"
	"syscall"
	"time"
	"unsafe"

	"github.com/xelaj/mtproto/internal/mode"
	"github.com/xelaj/mtproto/internal/mtproto/messages"
	"github.com/xelaj/mtproto/internal/transport"
	vc "verifcommon"
)

// ------------------------------------------------------------------ reference framing (independent of the code under test)

func refAnnounce(v string) []byte {
	if v == "A" {
		return []byte{0xef}
	}
	return []byte{0xee, 0xee, 0xee, 0xee}
}

func refHeader(v string, n int) []byte {
	if v == "A" {
		w := n / 4
		if w < 127 {
			return []byte{byte(w)}
		}
		return []byte{0x7f, byte(w), byte(w >> 8), byte(w >> 16)}
	}
	return []byte{byte(n), byte(n >> 8), byte(n >> 16), byte(n >> 24)}
}

func refFrames(v string, msgs [][]byte) []byte {
	var s []byte
	for _, m := range msgs {
		s = append(s, refHeader(v, len(m))...)
		s = append(s, m...)
	}
	return s
}

func refWire(v string, msgs [][]byte) []byte {
	return append(append([]byte{}, refAnnounce(v)...), refFrames(v, msgs)...)
}

func variantOf(v string) mode.Variant {
	if v == "A" {
		return mode.Abridged
	}
	return mode.Intermediate
}

func hexList(msgs [][]byte) string {
	l := make([]string, len(msgs))
	for i, m := range msgs {
		l[i] = vc.Hex(m)
	}
	return strings.Join(l, ",")
}

func unhexList(s string) [][]byte {
	if s == "" {
		return nil
	}
	var r [][]byte
	for _, h := range strings.Split(s, ",") {
		r = append(r, vc.UnHex(h))
	}
	return r
}

func showDelivery(v string, msgs [][]byte, end string) string {
	return fmt.Sprintf("%s|%d:%s|%s", v, len(msgs), hexList(msgs), end)
}

// ------------------------------------------------------------------ chunk size lists ("KxN" run-length text)

func sizesText(cuts []int) string {
	if len(cuts) == 0 {
		return "-"
	}
	var parts []string
	for i := 0; i < len(cuts); {
		j := i
		for j < len(cuts) && cuts[j] == cuts[i] {
			j++
		}
		if j-i >= 3 {
			parts = append(parts, fmt.Sprintf("%dx%d", cuts[i], j-i))
		} else {
			for k := i; k < j; k++ {
				parts = append(parts, strconv.Itoa(cuts[i]))
			}
		}
		i = j
	}
	return strings.Join(parts, ",")
}

func parseSizes(s string) []int {
	if s == "-" || s == "" {
		return nil
	}
	var r []int
	for _, it := range strings.Split(s, ",") {
		if i := strings.IndexByte(it, 'x'); i >= 0 {
			k, _ := strconv.Atoi(it[:i])
			n, _ := strconv.Atoi(it[i+1:])
			for j := 0; j < n; j++ {
				r = append(r, k)
			}
		} else {
			k, _ := strconv.Atoi(it)
			r = append(r, k)
		}
	}
	return r
}

// chunks actually sent: the listed sizes, then whatever is left (same rule as the model's [cut])
func chunksOf(stream []byte, cuts []int) [][]byte {
	var r [][]byte
	off := 0
	for _, n := range cuts {
		if off+n > len(stream) {
			n = len(stream) - off
		}
		r = append(r, stream[off:off+n])
		off += n
	}
	if off < len(stream) {
		r = append(r, stream[off:])
	}
	return r
}

// ------------------------------------------------------------------ loopback TCP peer with segment barrier

type peer struct {
	ln       *net.TCPListener
	addr     string
	port     int
	cur      string
	timeouts int // barriers that gave up (segmentation of that case not guaranteed)
	barriers int
}

func newPeer() *peer {
	ln, err := net.ListenTCP("tcp4", &net.TCPAddr{IP: net.IPv4(127, 0, 0, 1), Port: 0})
	if err != nil {
		fmt.Fprintln(os.Stderr, "listen:", err)
		os.Exit(3)
	}
	a := ln.Addr().(*net.TCPAddr)
	return &peer{ln: ln, addr: a.String(), port: a.Port}
}

func (p *peer) accept() *net.TCPConn {
	p.ln.SetDeadline(time.Now().Add(10 * time.Second))
	c, err := p.ln.AcceptTCP()
	if err != nil {
		fmt.Fprintln(os.Stderr, "accept:", err)
		os.Exit(3)
	}
	c.SetNoDelay(true)
	return c
}

// readerFD finds, among the file descriptors of this process, the socket whose peer is our listener and
// whose local port is rport - i.e. the socket the code under test dialled (it keeps it private).
// File descriptor numbers are process wide, so the harness can ask the kernel about that socket
// (ioctl SIOCINQ) without touching the object that owns it.
func (p *peer) readerFD(rport int) int {
	ents, err := os.ReadDir("/proc/self/fd")
	if err != nil {
		return -1
	}
	for _, e := range ents {
		fd, err := strconv.Atoi(e.Name())
		if err != nil || fd < 3 {
			continue
		}
		pa, err := syscall.Getpeername(fd)
		if err != nil {
			continue
		}
		p4, ok := pa.(*syscall.SockaddrInet4)
		if !ok || p4.Port != p.port || p4.Addr != [4]byte{127, 0, 0, 1} {
			continue
		}
		la, err := syscall.Getsockname(fd)
		if err != nil {
			continue
		}
		if l4, ok := la.(*syscall.SockaddrInet4); ok && l4.Port == rport {
			return fd
		}
	}
	return -1
}

func ioctlInt(fd int, req uintptr) (int, bool) {
	var v int32
	_, _, e := syscall.Syscall(syscall.SYS_IOCTL, uintptr(fd), req, uintptr(unsafe.Pointer(&v)))
	return int(v), e == 0
}

const (
	siocinq  = 0x541B // bytes received and not yet read by the application
	siocoutq = 0x5411 // bytes written and not yet acknowledged by the peer's kernel
)

// barrier waits until all bytes written to srv were acknowledged (SIOCOUTQ of srv = 0) and consumed by
// the application on the other end (SIOCINQ of its socket = 0).  Gives up after 1 s (counted) or when
// stop is closed.
func (p *peer) barrier(srv *net.TCPConn, rfd int, stop <-chan struct{}) bool {
	p.barriers++
	if rfd < 0 {
		// the reader's socket was not found (no /proc?): fall back to a pause; counted as not guaranteed
		p.timeouts++
		time.Sleep(100 * time.Microsecond)
		return false
	}
	raw, err := srv.SyscallConn()
	if err != nil {
		p.timeouts++
		return false
	}
	deadline := time.Now().Add(time.Second)
	for i := 0; ; i++ {
		tx, ok1 := 0, false
		raw.Control(func(fd uintptr) { tx, ok1 = ioctlInt(int(fd), siocoutq) })
		rx, ok2 := ioctlInt(rfd, siocinq)
		if ok1 && ok2 && tx == 0 && rx == 0 {
			return true
		}
		select {
		case <-stop:
			return false
		default:
		}
		if i > 200 {
			if time.Now().After(deadline) {
				p.timeouts++
				if os.Getenv("C08_DEBUG") != "" {
					fmt.Fprintf(os.Stderr, "barrier timeout: tx=%d rx=%d ok=%v,%v %s\n", tx, rx, ok1, ok2, p.cur)
				}
				return false
			}
			time.Sleep(20 * time.Microsecond)
		} else {
			runtime.Gosched()
		}
	}
}

// feed sends the chunks, waiting at the barrier after each (if wanted), then half-closes (FIN).
func (p *peer) feed(srv *net.TCPConn, chunks [][]byte, useBarrier bool, stop <-chan struct{}) {
	rfd := -1
	if useBarrier {
		rfd = p.readerFD(srv.RemoteAddr().(*net.TCPAddr).Port)
	}
	for _, c := range chunks {
		if len(c) == 0 {
			continue // an empty chunk is no segment at all
		}
		if _, err := srv.Write(c); err != nil {
			return
		}
		if useBarrier {
			p.barrier(srv, rfd, stop)
		}
	}
	srv.CloseWrite()
}

// kill the accepted socket without leaving TIME_WAIT behind (RST)
func kill(srv *net.TCPConn) {
	srv.SetLinger(0)
	srv.Close()
}

func errKind(err error) string {
	if err == io.EOF {
		return "EOF"
	}
	return "OTHER"
}

func withTimeout(d time.Duration, f func() string) string {
	ch := make(chan string, 1)
	go func() {
		var res string
		panicked, val := vc.Catch(func() { res = f() })
		if panicked {
			res = "PANIC:" + strings.ReplaceAll(strings.ReplaceAll(fmt.Sprint(val), "\t", " "), "\n", " ")
		}
		ch <- res
	}()
	select {
	case r := <-ch:
		return r
	case <-time.After(d):
		return "HANG"
	}
}

func caseTimeout(stream []byte, nchunks int) time.Duration {
	return 15*time.Second + time.Duration(nchunks)*2*time.Millisecond + time.Duration(len(stream))*time.Microsecond
}

// runR: the code under test dials (transport.NewTCP), detects the mode (mode.Detect) and reads messages
// (Mode.ReadMsg) until the first error while the peer feeds the stream in the given chunks.
func (p *peer) runR(stream []byte, cuts []int, useBarrier bool) string {
	ctx, cancel := context.WithCancel(context.Background())
	defer cancel()
	c, err := transport.NewTCP(transport.TCPConnConfig{Ctx: ctx, Host: p.addr})
	if err != nil {
		return "DIAL-ERROR"
	}
	srv := p.accept()
	stop := make(chan struct{})
	chunks := chunksOf(stream, cuts)
	var wg sync.WaitGroup
	wg.Add(1)
	go func() { defer wg.Done(); p.feed(srv, chunks, useBarrier, stop) }()
	res := withTimeout(caseTimeout(stream, len(chunks)), func() string {
		m, err := mode.Detect(c)
		if err != nil {
			return "-|0:|" + errKind(err)
		}
		v := "?"
		if vv, err := mode.GetVariant(m); err == nil {
			switch vv {
			case mode.Abridged:
				v = "A"
			case mode.Intermediate:
				v = "I"
			}
		}
		var msgs [][]byte
		for {
			msg, err := m.ReadMsg()
			if err != nil {
				return showDelivery(v, msgs, errKind(err))
			}
			msgs = append(msgs, msg)
			if len(msgs) > len(stream)+2 {
				return showDelivery(v, msgs, "RUNAWAY")
			}
		}
	})
	close(stop)
	kill(srv)
	wg.Wait()
	c.Close()
	return res
}

type informator struct{}

func (informator) GetSessionID() int64  { return 1 }
func (informator) GetSeqNo() int32      { return 0 }
func (informator) GetServerSalt() int64 { return 0 }
func (informator) GetAuthKey() []byte   { return make([]byte, 256) }

func envelope(msgID int64, payload []byte) []byte {
	b := make([]byte, 20, 20+len(payload))
	binary.LittleEndian.PutUint64(b[8:], uint64(msgID))
	binary.LittleEndian.PutUint32(b[16:], uint32(len(payload)))
	return append(b, payload...)
}

// runT: transport.NewTransport (dial + mode.New, which announces) and Transport.ReadMsg until EOF / a
// non-code error.  Returns the result and the announcement the peer received.
func (p *peer) runT(v string, stream []byte, cuts []int, useBarrier bool) (string, string) {
	ctx, cancel := context.WithCancel(context.Background())
	defer cancel()
	t, err := transport.NewTransport(informator{}, transport.TCPConnConfig{Ctx: ctx, Host: p.addr}, variantOf(v))
	if err != nil {
		return "DIAL-ERROR", "-"
	}
	srv := p.accept()
	ann := make([]byte, len(refAnnounce(v)))
	srv.SetReadDeadline(time.Now().Add(5 * time.Second))
	n, _ := io.ReadFull(srv, ann)
	ann = ann[:n]
	stop := make(chan struct{})
	chunks := chunksOf(stream, cuts)
	var wg sync.WaitGroup
	wg.Add(1)
	go func() { defer wg.Done(); p.feed(srv, chunks, useBarrier, stop) }()
	res := withTimeout(caseTimeout(stream, len(chunks)), func() string {
		var evs []string
		for {
			msg, err := t.ReadMsg()
			if err == nil {
				switch m := msg.(type) {
				case *messages.Unencrypted:
					evs = append(evs, "D"+vc.Hex(envelope(m.MsgID, m.Msg)))
				default:
					evs = append(evs, fmt.Sprintf("X%T", msg))
				}
			} else if code, ok := err.(transport.ErrCode); ok {
				evs = append(evs, "C"+strconv.Itoa(int(code)))
			} else {
				return fmt.Sprintf("%d:%s|%s", len(evs), strings.Join(evs, ","), errKind(err))
			}
			if len(evs) > len(stream)+2 {
				return fmt.Sprintf("%d:%s|RUNAWAY", len(evs), strings.Join(evs, ","))
			}
		}
	})
	close(stop)
	kill(srv)
	wg.Wait()
	t.Close()
	return res, vc.Hex(ann)
}

// runF: the real writer over TCP: transport.NewTCP + mode.New + WriteMsg for every message + Close;
// the peer records every byte until FIN.
func (p *peer) runF(v string, msgs [][]byte) string {
	ctx, cancel := context.WithCancel(context.Background())
	defer cancel()
	c, err := transport.NewTCP(transport.TCPConnConfig{Ctx: ctx, Host: p.addr})
	if err != nil {
		return "DIAL-ERROR"
	}
	srv := p.accept()
	got := make(chan []byte, 1)
	go func() {
		srv.SetReadDeadline(time.Now().Add(60 * time.Second))
		b, _ := io.ReadAll(srv)
		got <- b
	}()
	res := withTimeout(60*time.Second, func() string {
		m, err := mode.New(variantOf(v), c)
		if err != nil {
			return "E"
		}
		for _, msg := range msgs {
			if err := m.WriteMsg(msg); err != nil {
				return "E"
			}
		}
		return ""
	})
	c.Close()
	b := <-got
	kill(srv)
	if res != "" {
		return res
	}
	return vc.Hex(b)
}

// byte pipe for mode-level write cases
type capture struct{ buf []byte }

func (c *capture) Write(p []byte) (int, error) { c.buf = append(c.buf, p...); return len(p), nil }
func (c *capture) Read(p []byte) (int, error)  { return 0, io.EOF }

func runW(v string, msg []byte) (announce string, res string) {
	cp := &capture{}
	res = withTimeout(30*time.Second, func() string {
		m, err := mode.New(variantOf(v), cp)
		if err != nil {
			return "E"
		}
		announce = vc.Hex(cp.buf)
		n := len(cp.buf)
		if err := m.WriteMsg(msg); err != nil {
			return "E"
		}
		return "O:" + vc.Hex(cp.buf[n:])
	})
	return
}

// selftest: a plain reader records the sizes its Read calls return while the peer feeds a composition
// with barriers; they must be exactly the composition.
func (p *peer) selftest(stream []byte, cuts []int) bool {
	conn, err := net.Dial("tcp4", p.addr)
	if err != nil {
		return false
	}
	defer conn.Close()
	srv := p.accept()
	stop := make(chan struct{})
	done := make(chan []int, 1)
	go func() {
		var sizes []int
		buf := make([]byte, 1<<16)
		for {
			n, err := conn.Read(buf)
			if n > 0 {
				sizes = append(sizes, n)
			}
			if err != nil {
				break
			}
		}
		done <- sizes
	}()
	chunks := chunksOf(stream, cuts)
	p.feed(srv, chunks, true, stop)
	var sizes []int
	select {
	case sizes = <-done:
	case <-time.After(10 * time.Second):
	}
	close(stop)
	kill(srv)
	var want []int
	for _, c := range chunks {
		if len(c) > 0 {
			want = append(want, len(c))
		}
	}
	if len(sizes) != len(want) {
		return false
	}
	for i := range want {
		if sizes[i] != want[i] {
			return false
		}
	}
	return true
}

// ------------------------------------------------------------------ case generation

type job struct {
	kind    string // R T F W A S(selftest)
	v       string
	stream  []byte
	cuts    []int
	barrier bool
	msgs    [][]byte
	expect  string
	class   string
	// results
	impl string
	ann  string
	ok   bool
}

type gen struct {
	r    *vc.Rng
	jobs []*job
	seen map[string]bool
	stat map[string]int
	tier string

	fixedLimit int
}

func (g *gen) add(j *job) {
	key := j.kind + "|" + j.v + "|" + string(j.stream) + "|" + sizesText(j.cuts) + "|" + hexList(j.msgs)
	if j.kind != "S" {
		if g.seen[key] {
			return
		}
		g.seen[key] = true
	}
	g.stat["cases:"+j.kind+":"+j.class]++
	g.jobs = append(g.jobs, j)
}

func (g *gen) msg(n int) []byte { return g.r.Bytes(n) }

// all compositions of n (2^(n-1)); the last part is left implicit (model and harness add the remainder)
func compositions(n int) [][]int {
	if n == 0 {
		return [][]int{nil}
	}
	var res [][]int
	for mask := 0; mask < 1<<(uint(n)-1); mask++ {
		var parts []int
		last := 0
		for i := 1; i < n; i++ {
			if mask&(1<<(uint(i)-1)) != 0 {
				parts = append(parts, i-last)
				last = i
			}
		}
		parts = append(parts, n-last)
		res = append(res, parts)
	}
	return res
}

func ones(n int) []int {
	r := make([]int, n)
	for i := range r {
		r[i] = 1
	}
	return r
}

func fixed(total, k int) []int {
	var r []int
	for off := 0; off < total; off += k {
		n := k
		if off+n > total {
			n = total - off
		}
		r = append(r, n)
	}
	return r
}

func (g *gen) randomCuts(total, k int) []int {
	if total <= 1 {
		return []int{total}
	}
	pts := map[int]bool{}
	for i := 0; i < k; i++ {
		pts[1+g.r.Intn(total-1)] = true
	}
	var ps []int
	for p := range pts {
		ps = append(ps, p)
	}
	sort.Ints(ps)
	var r []int
	last := 0
	for _, p := range ps {
		r = append(r, p-last)
		last = p
	}
	return append(r, total-last)
}

// cuts at the given absolute offsets (plus jitter d), used to split exactly at / around frame borders
func cutsAt(total int, offs []int, d int) []int {
	pts := map[int]bool{}
	for _, o := range offs {
		p := o + d
		if p > 0 && p < total {
			pts[p] = true
		}
	}
	var ps []int
	for p := range pts {
		ps = append(ps, p)
	}
	sort.Ints(ps)
	var r []int
	last := 0
	for _, p := range ps {
		r = append(r, p-last)
		last = p
	}
	return append(r, total-last)
}

func frameOffsets(v string, withAnnounce bool, msgs [][]byte) []int {
	var offs []int
	off := 0
	if withAnnounce {
		off = len(refAnnounce(v))
		offs = append(offs, off)
	}
	for _, m := range msgs {
		off += len(refHeader(v, len(m)))
		offs = append(offs, off) // header | body
		off += len(m)
		offs = append(offs, off) // frame | next frame
	}
	return offs
}

// segmentations of one valid stream
func (g *gen) segmentations(kind, v string, stream []byte, offs []int, expect, class string, oneByteLimit, nRandom int) {
	n := len(stream)
	add := func(cuts []int, barrier bool, cl string) {
		g.add(&job{kind: kind, v: v, stream: stream, cuts: cuts, barrier: barrier, expect: expect, class: class + "/" + cl})
	}
	add(nil, false, "coalesced")
	if n == 0 {
		return
	}
	if n > 1<<16 && g.tier != "thorough" {
		// quick tier: the biggest streams get three segmentations only
		add(g.randomCuts(n, 1+g.r.Intn(40)), true, "random")
		add(fixed(n, 1460), false, "fixed1460-nobarrier")
		return
	}
	if n <= oneByteLimit {
		add(ones(n), true, "1-byte")
	}
	big := n > 1<<16
	for _, d := range []int{0, 1, -1} {
		if big && d != 0 {
			continue
		}
		c := cutsAt(n, offs, d)
		if len(c) <= 4000 {
			add(c, true, "frame-border"+strconv.Itoa(d))
		}
	}
	if big && nRandom > 3 {
		nRandom = 3
	}
	for i := 0; i < nRandom; i++ {
		k := 1 + g.r.Intn(12)
		if g.r.Intn(3) == 0 {
			k = 1 + g.r.Intn(60)
		}
		add(g.randomCuts(n, k), true, "random")
	}
	for _, k := range []int{2, 3, 5, 1460} {
		if n/k <= g.fixedLimit && n > k {
			add(fixed(n, k), true, "fixed"+strconv.Itoa(k))
		}
	}
	if n > 1460 {
		add(fixed(n, 1460), false, "fixed1460-nobarrier")
	}
}

var boundaryLens = []int{0, 4, 8, 12, 16, 20, 24, 28, 100, 252, 256, 496, 500, 504, 508, 512, 516, 520, 1016, 1020, 1024, 2048, 4096}

func (g *gen) msgList(lens []int) [][]byte {
	var ms [][]byte
	for _, n := range lens {
		ms = append(ms, g.msg(n))
	}
	return ms
}

func (g *gen) generate() {
	thorough := g.tier == "thorough"
	oneByteLimit := 1200
	nRandom := 4
	g.fixedLimit = 400
	if thorough {
		oneByteLimit = 70000
		nRandom = 16
		g.fixedLimit = 4000
	}

	// --- announcements and single WriteMsg calls over a byte pipe
	for _, v := range []string{"A", "I"} {
		g.add(&job{kind: "A", v: v, class: "announce"})
		var lens []int
		for n := 0; n <= 40; n++ {
			lens = append(lens, n)
		}
		for n := 490; n <= 530; n++ {
			lens = append(lens, n)
		}
		for n := 1010; n <= 1030; n++ {
			lens = append(lens, n)
		}
		lens = append(lens, 4096, 65532, 65536, 65540, 1<<20)
		if thorough {
			lens = append(lens, 1<<20+4, 1<<22)
		}
		for i := 0; i < 20; i++ {
			lens = append(lens, g.r.Intn(3000))
		}
		for _, n := range lens {
			g.add(&job{kind: "W", v: v, msgs: [][]byte{g.msg(n)}, class: "writemsg"})
		}
	}

	// --- message lists: written by the real writer over TCP (F), read back under many segmentations (R)
	var lists [][]int
	lists = append(lists, []int{}, []int{0}, []int{4}, []int{0, 0, 0}, []int{504}, []int{508}, []int{512},
		[]int{504, 508}, []int{508, 504}, []int{508, 0, 504, 4, 512}, []int{4, 4, 4, 4, 4, 4, 4, 4}, []int{1020, 1016, 1024})
	for _, n := range boundaryLens {
		lists = append(lists, []int{n})
	}
	nl := 12
	if thorough {
		nl = 60
	}
	for i := 0; i < nl; i++ {
		k := 1 + g.r.Intn(6)
		var l []int
		for j := 0; j < k; j++ {
			l = append(l, boundaryLens[g.r.Intn(len(boundaryLens))])
		}
		lists = append(lists, l)
	}
	for i := 0; i < nl; i++ {
		k := 1 + g.r.Intn(4)
		var l []int
		for j := 0; j < k; j++ {
			l = append(l, 4*g.r.Intn(400))
		}
		lists = append(lists, l)
	}
	lists = append(lists, []int{16384}, []int{65536}, []int{4, 1 << 18, 0, 508})
	lists = append(lists, []int{1 << 20})
	if thorough {
		lists = append(lists, []int{1<<20 - 4}, []int{1<<20 + 4}, []int{1 << 20, 4, 1 << 16}, []int{1 << 19, 1 << 19}, []int{1 << 16, 1 << 17, 1 << 18})
	}
	for _, v := range []string{"A", "I"} {
		for _, l := range lists {
			msgs := g.msgList(l)
			g.add(&job{kind: "F", v: v, msgs: msgs, class: "writer-tcp"})
			stream := refWire(v, msgs)
			nr := nRandom
			if len(stream) > 1<<16 && !thorough {
				nr = 2
			}
			g.segmentations("R", "-", stream, frameOffsets(v, true, msgs), showDelivery(v, msgs, "EOF"), "valid", oneByteLimit, nr)
		}
		// intermediate carries lengths that are not a multiple of 4 (the code has no check); abridged refuses them in WriteMsg
		if v == "A" {
			for _, l := range [][]int{{3}, {4, 6, 4}, {510}} {
				g.add(&job{kind: "F", v: v, msgs: g.msgList(l), class: "writer-tcp-refused"})
			}
		}
		if v == "I" {
			for _, l := range [][]int{{1}, {2, 3}, {5, 0, 7}, {509}, {1021, 1}} {
				msgs := g.msgList(l)
				g.add(&job{kind: "F", v: v, msgs: msgs, class: "writer-tcp-unaligned"})
				stream := refWire(v, msgs)
				g.segmentations("R", "-", stream, frameOffsets(v, true, msgs), showDelivery(v, msgs, "EOF"), "valid-unaligned", oneByteLimit, nRandom)
			}
		}
	}

	// --- thorough: one byte at a time through a 2^20-byte message (about a minute of barriers)
	if thorough {
		for _, x := range []struct {
			v string
			n int
		}{{"A", 1 << 20}, {"I", 1 << 18}} {
			msgs := g.msgList([]int{x.n})
			stream := refWire(x.v, msgs)
			g.add(&job{kind: "R", v: "-", stream: stream, cuts: ones(len(stream)), barrier: true,
				expect: showDelivery(x.v, msgs, "EOF"), class: "valid/1-byte"})
		}
	}

	// --- every composition of short streams
	maxExh := 14
	short := map[string][][]int{
		"A": {{}, {0}, {0, 0, 0}, {4}, {4, 0}, {0, 4, 4}, {4, 4, 0, 0, 0}},
		"I": {{}, {0}, {4}, {0, 0}, {1, 1}},
	}
	if thorough {
		short["A"] = append(short["A"], [][]int{{8, 0, 0}, {12}, {4, 4}, {4, 0, 4, 0}, {0, 8, 0, 0, 0}}...)
		short["I"] = append(short["I"], [][]int{{2, 0}, {6}, {5}, {2}}...)
	}
	for _, v := range []string{"A", "I"} {
		for _, l := range short[v] {
			msgs := g.msgList(l)
			stream := refWire(v, msgs)
			if len(stream) > maxExh {
				continue
			}
			exp := showDelivery(v, msgs, "EOF")
			for _, comp := range compositions(len(stream)) {
				g.add(&job{kind: "R", v: "-", stream: stream, cuts: comp, barrier: true, expect: exp, class: "exhaustive"})
			}
		}
	}

	// --- transport level: error codes and unencrypted envelopes
	codes := []int64{-404, -429, -444, 404, 0, 1, -1, 2147483647, -2147483648, -403}
	type tevt struct {
		code   bool
		c      int64
		data   []byte
		expect string
	}
	mkCode := func(c int64) tevt {
		b := make([]byte, 4)
		binary.LittleEndian.PutUint32(b, uint32(int32(c)))
		return tevt{code: true, c: c, data: b, expect: "C" + strconv.FormatInt(c, 10)}
	}
	mkData := func(n int) tevt {
		id := int64(g.r.U64()>>3<<2) | 1
		if g.r.Bool() {
			id |= 2
		}
		e := envelope(id, g.msg(n))
		return tevt{data: e, expect: "D" + vc.Hex(e)}
	}
	var tlists [][]tevt
	for _, c := range codes {
		tlists = append(tlists, []tevt{mkCode(c)})
	}
	tlists = append(tlists, []tevt{}, []tevt{mkCode(-404), mkCode(-429)}, []tevt{mkData(0)}, []tevt{mkData(4), mkCode(-404), mkData(488)},
		[]tevt{mkData(484), mkData(488), mkData(492)}, []tevt{mkCode(-404), mkData(40), mkCode(-444), mkCode(-1), mkData(1000)})
	nt := 6
	if thorough {
		nt = 40
	}
	for i := 0; i < nt; i++ {
		k := 1 + g.r.Intn(5)
		var l []tevt
		for j := 0; j < k; j++ {
			if g.r.Intn(3) == 0 {
				l = append(l, mkCode(codes[g.r.Intn(len(codes))]))
			} else if g.r.Intn(4) == 0 {
				l = append(l, mkCode(int64(int32(g.r.U64()))))
			} else {
				l = append(l, mkData(4*g.r.Intn(300)))
			}
		}
		tlists = append(tlists, l)
	}
	tlists = append(tlists, []tevt{mkData(1 << 16), mkCode(-404)})
	for _, v := range []string{"A", "I"} {
		for _, l := range tlists {
			var msgs [][]byte
			var exps []string
			for _, e := range l {
				msgs = append(msgs, e.data)
				exps = append(exps, e.expect)
			}
			stream := refFrames(v, msgs)
			exp := fmt.Sprintf("%d:%s|EOF", len(exps), strings.Join(exps, ","))
			if len(stream) <= maxExh && len(stream) > 0 {
				for _, comp := range compositions(len(stream)) {
					g.add(&job{kind: "T", v: v, stream: stream, cuts: comp, barrier: true, expect: exp, class: "exhaustive"})
				}
			}
			g.segmentations("T", v, stream, frameOffsets(v, false, msgs), exp, "valid", oneByteLimit, nRandom)
		}
	}

	// --- streams that are not what a writer produces: every prefix of valid streams, wrong announcements,
	//     trailing garbage with small length fields.  Expectation comes from the model only.
	for _, v := range []string{"A", "I"} {
		for _, l := range [][]int{{4, 0, 8}, {508, 4}, {0, 512}} {
			msgs := g.msgList(l)
			stream := refWire(v, msgs)
			step := 1
			if len(stream) > 64 {
				step = 1 + len(stream)/40
			}
			for n := 0; n < len(stream); n += step {
				pre := stream[:n]
				g.add(&job{kind: "R", v: "-", stream: pre, expect: "?", class: "truncated/coalesced"})
				if n > 0 {
					g.add(&job{kind: "R", v: "-", stream: pre, cuts: g.randomCuts(n, 1+g.r.Intn(4)), barrier: true, expect: "?", class: "truncated/random"})
				}
				if n > 0 && n <= 40 {
					g.add(&job{kind: "R", v: "-", stream: pre, cuts: ones(n), barrier: true, expect: "?", class: "truncated/1-byte"})
				}
			}
		}
		// transport level: prefixes of streams of error codes and valid envelopes (a payload that is not a
		// valid envelope would fail in the message parser, which is outside this property)
		for _, l := range [][]tevt{{mkCode(-404), mkData(4), mkCode(-429)}, {mkData(40), mkCode(-1)}} {
			var msgs [][]byte
			for _, e := range l {
				msgs = append(msgs, e.data)
			}
			fr := refFrames(v, msgs)
			for n := 0; n < len(fr); n++ {
				g.add(&job{kind: "T", v: v, stream: fr[:n], cuts: g.randomCuts(n, 1+g.r.Intn(3)), barrier: true, expect: "?", class: "truncated/random"})
				g.add(&job{kind: "T", v: v, stream: fr[:n], expect: "?", class: "truncated/coalesced"})
			}
		}
	}
	for _, h := range []string{"00", "ff", "dd", "dddddddd", "ee", "eeee", "eeeeee", "eeeeeeef", "eeeeee00", "ee000000", "efef", "7f", "ef7f", "ef7f0000",
		"ef7f000000", "ef7f010000", "ef7f01000001020304", "efff", "ef80" + strings.Repeat("ab", 512), "eeeeeeee0100", "eeeeeeee05000000aabbccddee", "eeeeeeee05000000aabbccdd"} {
		s := vc.UnHex(h)
		g.add(&job{kind: "R", v: "-", stream: s, expect: "?", class: "malformed/coalesced"})
		if len(s) <= 9 {
			for _, comp := range compositions(len(s)) {
				g.add(&job{kind: "R", v: "-", stream: s, cuts: comp, barrier: true, expect: "?", class: "malformed/exhaustive"})
			}
		} else {
			g.add(&job{kind: "R", v: "-", stream: s, cuts: g.randomCuts(len(s), 5), barrier: true, expect: "?", class: "malformed/random"})
		}
	}
	nm := 40
	if thorough {
		nm = 400
	}
	for i := 0; i < nm; i++ {
		// frames no writer of this library produces but a reader accepts (abridged count bytes >= 0x80,
		// the 0x7f form with a small count, intermediate lengths that are not a multiple of 4), every body
		// exactly as long as announced so that no reader is ever asked for more than ~1 kB; then the tail is
		// cut off at a random place or a few stray bytes (shorter than any header that asks for much) follow
		v := "A"
		if g.r.Bool() {
			v = "I"
		}
		s := append([]byte{}, refAnnounce(v)...)
		k := 1 + g.r.Intn(5)
		for j := 0; j < k; j++ {
			if v == "A" {
				w := g.r.Intn(256)
				if w == 0x7f || g.r.Intn(5) == 0 {
					w = g.r.Intn(200)
					s = append(s, 0x7f, byte(w), 0, 0)
				} else {
					s = append(s, byte(w))
				}
				s = append(s, g.r.Bytes(4*w)...)
			} else {
				n := g.r.Intn(300)
				s = append(s, byte(n), byte(n>>8), 0, 0)
				s = append(s, g.r.Bytes(n)...)
			}
		}
		switch g.r.Intn(3) {
		case 0:
			s = s[:len(refAnnounce(v))+g.r.Intn(len(s)-len(refAnnounce(v))+1)]
		case 1:
			if v == "A" {
				s = append(s, byte(1+g.r.Intn(100)))
				s = append(s, g.r.Bytes(g.r.Intn(4))...)
			} else {
				s = append(s, g.r.Bytes(g.r.Intn(4))...)
			}
		}
		g.add(&job{kind: "R", v: "-", stream: s, cuts: g.randomCuts(len(s), 1+g.r.Intn(8)), barrier: true, expect: "?", class: "garbage/random"})
		g.add(&job{kind: "R", v: "-", stream: s, expect: "?", class: "garbage/coalesced"})
	}

	// --- validation of the segmenting mechanism itself
	ns := 150
	if thorough {
		ns = 1500
	}
	for i := 0; i < ns; i++ {
		n := 1 + g.r.Intn(14)
		if i%10 == 0 {
			n = 100 + g.r.Intn(3000)
		}
		g.add(&job{kind: "S", stream: g.r.Bytes(n), cuts: g.randomCuts(n, 1+g.r.Intn(13)), class: "selftest"})
	}
}

func (g *gen) run(nworkers int) (timeouts, barriers int) {
	var wg sync.WaitGroup
	ch := make(chan *job, 256)
	peers := make([]*peer, nworkers)
	for w := 0; w < nworkers; w++ {
		peers[w] = newPeer()
		wg.Add(1)
		go func(p *peer) {
			defer wg.Done()
			for j := range ch {
				p.cur = j.kind + " " + j.class + " " + strconv.Itoa(len(j.stream)) + " " + sizesText(j.cuts)
				if len(p.cur) > 150 {
					p.cur = p.cur[:150]
				}
				switch j.kind {
				case "A":
					j.impl, _ = runW(j.v, nil)
				case "W":
					_, j.impl = runW(j.v, j.msgs[0])
				case "F":
					j.impl = p.runF(j.v, j.msgs)
				case "R":
					j.impl = p.runR(j.stream, j.cuts, j.barrier)
				case "T":
					j.impl, j.ann = p.runT(j.v, j.stream, j.cuts, j.barrier)
				case "S":
					j.ok = p.selftest(j.stream, j.cuts)
				}
			}
		}(peers[w])
	}
	// the few very long jobs first, so that they overlap with everything else
	for _, j := range g.jobs {
		if len(j.cuts) > 100000 {
			ch <- j
		}
	}
	for _, j := range g.jobs {
		if len(j.cuts) <= 100000 {
			ch <- j
		}
	}
	close(ch)
	wg.Wait()
	for _, p := range peers {
		timeouts += p.timeouts
		barriers += p.barriers
		p.ln.Close()
	}
	return
}

// "=" stands for "identical to the implementation's result" (keeps the case file small)
func same(expect, impl string) string {
	if expect == impl {
		return "="
	}
	return expect
}

func main() {
	if len(os.Args) < 2 {
		fmt.Fprintln(os.Stderr, "usage: c08 gen <tier> <out> | one ...")
		os.Exit(3)
	}
	switch os.Args[1] {
	case "gen":
		tier, outPath := os.Args[2], os.Args[3]
		g := &gen{r: vc.NewRng(vc.Seed() ^ 0xc08), seen: map[string]bool{}, stat: map[string]int{}, tier: tier}
		g.generate()
		nw := 8
		if s := os.Getenv("C08_WORKERS"); s != "" {
			nw, _ = strconv.Atoi(s)
		}
		t0 := time.Now()
		timeouts, barriers := g.run(nw)
		out := vc.Create(outPath)
		selfOK, selfBad := 0, 0
		for i, j := range g.jobs {
			id := strconv.Itoa(i + 1)
			switch j.kind {
			case "A":
				out.Line("A", id, j.v, j.impl)
			case "W":
				out.Line("W", id, j.v, vc.Hex(j.msgs[0]), j.impl)
			case "F":
				out.Line("F", id, j.v, hexList(j.msgs), vc.Hex(refWire(j.v, j.msgs)), j.impl)
			case "R":
				out.Line("R", id, vc.Hex(j.stream), sizesText(j.cuts), j.impl, same(j.expect, j.impl), j.class)
			case "T":
				out.Line("T", id, j.v, vc.Hex(j.stream), sizesText(j.cuts), j.impl, same(j.expect, j.impl), j.class, j.ann)
			case "S":
				if j.ok {
					selfOK++
				} else {
					selfBad++
				}
			}
		}
		out.Close()
		keys := make([]string, 0, len(g.stat))
		for k := range g.stat {
			keys = append(keys, k)
		}
		sort.Strings(keys)
		for _, k := range keys {
			fmt.Printf("stat\t%s\t%d\n", k, g.stat[k])
		}
		fmt.Printf("stat\tselftest_ok\t%d\n", selfOK)
		fmt.Printf("stat\tselftest_bad\t%d\n", selfBad)
		fmt.Printf("stat\tbarriers\t%d\n", barriers)
		fmt.Printf("stat\tbarrier_timeouts\t%d\n", timeouts)
		fmt.Printf("stat\timpl_run_ms\t%d\n", time.Since(t0).Milliseconds())
	case "one":
		p := newPeer()
		// an argument "@path" is read from that file (hex of a 1 MB stream does not fit an argv entry)
		arg := func(i int) string {
			if i >= len(os.Args) {
				return ""
			}
			a := os.Args[i]
			if strings.HasPrefix(a, "@") {
				b, err := os.ReadFile(a[1:])
				if err != nil {
					fmt.Fprintln(os.Stderr, err)
					os.Exit(3)
				}
				return strings.TrimSpace(string(b))
			}
			return a
		}
		switch os.Args[2] {
		case "R":
			fmt.Println(p.runR(vc.UnHex(arg(3)), parseSizes(arg(4)), true))
		case "T":
			r, ann := p.runT(arg(3), vc.UnHex(arg(4)), parseSizes(arg(5)), true)
			fmt.Println(r + "\t" + ann)
		case "W":
			ann, r := runW(arg(3), vc.UnHex(arg(4)))
			fmt.Println(r + "\t" + ann)
		case "F":
			fmt.Println(p.runF(arg(3), unhexList(arg(4))))
		}
	default:
		os.Exit(3)
	}
}
