// C19 freshness through the REAL key exchange.
//
//	c19 exchange <seed> <n> <log-out> [stream seed]
//
// With the recording crypto/rand.Reader of fresh.go installed, <n> (>= 24) complete key exchanges
// are run in ONE process: a new client (mtproto.NewMTProto + CreateConnection, which runs the real
// makeAuthKey) against the scripted server of harness/root/hsserver (written from the MTProto
// specification, no code of the repository).  Schedule, by exchange number i:
//
//	i%6 == 2   the server answers set_client_DH_params with dh_gen_retry (the client must not re-use
//	           nonce / new_nonce / b in whatever it does next); followed by a new exchange
//	i%6 == 4   the server corrupts the nonce of resPQ: the exchange fails after the first message;
//	           followed by a new exchange
//	i%6 == 5   the system random source fails once, at the k-th read of the exchange (k = 1..5 in turn)
//	otherwise  conformant exchange
//
// What is checked is what the SERVER received: nonce (req_pq), new_nonce (RSA-decrypted
// p_q_inner_data) and g_b (client_DH_inner_data); b is recovered from the Reads made during the
// exchange as the 256-byte run with g^b mod dh_prime = g_b.  Log lines as in fresh.go (call = exchange
// number), plus
//
//	X call class fault error-text      class = ok | err | panic | hang
package main

import (
	"crypto/rand"
	"crypto/rsa"
	"encoding/hex"
	"fmt"
	"io/ioutil"
	"math/big"
	"os"
	"path/filepath"
	"strconv"
	"strings"
	"time"

	"github.com/xelaj/mtproto"
	"github.com/xelaj/mtproto/verifharness/hsserver"
	vc "verifcommon"
)

var keepAlive []interface{} // servers and clients are never closed inside the process (as in cmd/c06)

func smallPrime(r *vc.Rng) *big.Int {
	for {
		p := new(big.Int).SetUint64(uint64(r.U64()>>33) | 1<<30 | 1)
		if p.ProbablyPrime(20) {
			return p
		}
	}
}

func exchangeMain(args []string) {
	if len(args) != 3 && len(args) != 4 {
		fmt.Fprintln(os.Stderr, "usage: c19 exchange <seed> <n> <log-out> [stream seed]")
		os.Exit(2)
	}
	seed, err1 := strconv.ParseInt(args[0], 10, 64)
	n, err2 := strconv.Atoi(args[1])
	if err1 != nil || err2 != nil {
		fmt.Fprintln(os.Stderr, "c19 exchange: bad arguments")
		os.Exit(2)
	}
	sseed := uint64(seed)
	if len(args) == 4 {
		v, _ := strconv.ParseUint(args[3], 10, 64)
		sseed = v
	}
	f, err := os.Create(args[2])
	if err != nil {
		fmt.Fprintln(os.Stderr, err)
		os.Exit(3)
	}
	defer f.Close()
	rec := newRecorder(sseed)
	rand.Reader = rec
	r := vc.NewRng(uint64(seed) ^ 0xe8c4a9e)
	dir, _ := ioutil.TempDir("", "c19-")
	defer os.RemoveAll(dir)
	hand := func(consumer string, call int, v []byte) {
		fmt.Fprintf(f, "H\t%d\t%s\t%d\t%d\t%s\t%s\n", call, consumer, len(v), rec.locate(v), hex.EncodeToString(v), rec.pieces(v))
	}
	for i := 1; i <= n; i++ {
		var fault *hsserver.Fault
		fname := "-"
		switch i % 6 {
		case 2:
			fault, fname = &hsserver.Fault{Target: "genok.ctor", Kind: "ctor:dh_gen_retry"}, "dh_gen_retry"
		case 4:
			fault, fname = &hsserver.Fault{Target: "respq.nonce", Kind: "flip", Pos: 5}, "respq.nonce-flip"
		case 5:
			// the system source FAILS at the k-th read of this exchange (k = 1: nonce, 2: new_nonce, 3..: DH exponent and
			// whatever else is drawn): the exchange may end in an error or a panic, but nothing the server receives may be
			// a value that was not drawn (a zero or stale secret sent on).  Followed by a new exchange.
			// The failure is a hiccup (one read), lasts three reads (what a retry loop might sit out) or the rest of the
			// exchange.
			k := 1 + (i/6)%5
			nfail := []int{1, 1 << 30, 3, 2}[(i/6)%4]
			fname = "read-fails@" + strconv.Itoa(k)
			if nfail != 1 {
				fname += "x" + map[int]string{1 << 30: "all", 3: "3", 2: "2"}[nfail]
			}
			rec.failRead(i, k, nfail)
		}
		p, q := smallPrime(r), smallPrime(r)
		for p.Cmp(q) == 0 {
			q = smallPrime(r)
		}
		if p.Cmp(q) > 0 {
			p, q = q, p
		}
		a := new(big.Int).SetBytes(r.Bytes(256))
		ga := new(big.Int).Exp(big.NewInt(3), a, dhPrime2048)
		// answer_with_hash = SHA1 (20) + server_DH_inner_data, padded to a multiple of 16
		tlLen := func(k int) int {
			h := 1
			if k >= 254 {
				h = 4
			}
			return (h + k + 3) / 4 * 4
		}
		body := 20 + 4 + 16 + 16 + 4 + tlLen(256) + tlLen(len(ga.Bytes())) + 4
		srv, err := hsserver.New(hsserver.Params{
			ServerNonce: r.Bytes(16), PQ: new(big.Int).Mul(p, q).Bytes(), P: p, Q: q,
			N: rsaN, E: rsaE, D: rsaD, G: 3, DHPrime: dhPrime2048, A: a,
			ServerTime: int32(1600000000 + r.Intn(100000000)), AnswerPad: r.Bytes((16 - body%16) % 16),
		}, fault)
		if err != nil {
			fmt.Fprintln(os.Stderr, "hsserver:", err)
			os.Exit(3)
		}
		m, err := mtproto.NewMTProto(mtproto.Config{
			AuthKeyFile: filepath.Join(dir, fmt.Sprintf("session-%d.json", i)), ServerHost: srv.Addr(),
			PublicKey: &rsa.PublicKey{N: rsaN, E: int(rsaE.Int64())},
		})
		if err != nil {
			fmt.Fprintln(os.Stderr, "NewMTProto:", err)
			os.Exit(3)
		}
		keepAlive = append(keepAlive, srv, m)
		rec.setCall(i)
		before := rec.nreads()
		type res struct {
			err      error
			panicked bool
			pv       interface{}
		}
		done := make(chan res, 1)
		go func() {
			var x res
			x.panicked, x.pv = vc.Catch(func() { x.err = m.CreateConnection() })
			done <- x
		}()
		class, text := "hang", "CreateConnection did not return"
		select {
		case x := <-done:
			switch {
			case x.panicked:
				class, text = "panic", fmt.Sprint(x.pv)
			case x.err != nil:
				class, text = "err", x.err.Error()
			default:
				class, text = "ok", "-"
			}
		case <-time.After(20 * time.Second):
		}
		time.Sleep(20 * time.Millisecond) // whatever the client still sends belongs to this exchange
		fmt.Fprintf(f, "X\t%d\t%s\t%s\t%s\n", i, class, fname, strings.ReplaceAll(strings.ReplaceAll(text, "\t", " "), "\n", " "))
		sr := srv.Result()
		if len(sr.ClientNonce) > 0 {
			hand("nonce", i, sr.ClientNonce)
		}
		if len(sr.NewNonce) > 0 {
			hand("new_nonce", i, sr.NewNonce)
		}
		if sr.GB != nil {
			found := false
			tries := 0
			for _, rd := range rec.readsSince(before) {
				for off := rd.off; off+256 <= rd.off+rd.n && tries < 400 && !found; off++ {
					tries++
					b := rec.stream[off : off+256]
					if new(big.Int).Exp(big.NewInt(3), new(big.Int).SetBytes(b), dhPrime2048).Cmp(sr.GB) == 0 {
						hand("dh_b", i, b)
						found = true
					}
				}
			}
			if !found {
				fmt.Fprintf(f, "H\t%d\tdh_b\t256\t-1\tg_b=%s\t-\n", i, hex.EncodeToString(sr.GB.Bytes()))
			}
		}
	}
	rec.dump(f)
	fmt.Printf("exchange: %d key exchanges, %d reads, %d bytes served\n", n, rec.nreads(), rec.pos)
}
