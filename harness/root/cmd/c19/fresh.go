// C19 freshness stage: every secret handed out is a slice of the OS stream that no earlier value used.
//
//	c19 fresh <seed> <srp calls> <log-out> [stream seed]
//
// <seed> fixes the order of the draws, <stream seed> (default: <seed>) the bytes the source serves; the
// check runs the same order against two different streams: a secret that does not change with the
// stream does not come from it.
//
// crypto/rand.Reader (an exported variable; crypto/rand.Read and rand.Int read through it) is
// replaced by a recording reader that serves a fixed pseudo-random stream in which every 8-byte
// window occurs once (checked at start) and logs every Read(offset, len).  Then, in ONE process,
// the randomness consumers of the REAL code are called many times:
//
//	phase 1  48 rounds of the nonce pattern of makeAuthKey: tl.RandomInt128 (16), tl.RandomInt256 (32)
//	phase 2  40 complete key exchanges: utils.GenerateSessionID, RandomInt128, RandomInt256,
//	         ige.EncryptMessageWithTempKeys (padding 0..15), math.MakeGAB (257 per attempt)
//	phase 3  <srp calls> x telegram.GetInputCheckPassword (256) interleaved with nonces
//	phase 4  120 draws in an order chosen from <seed> (16 / 32 / 257 / session id / padding)
//
// Each handed-out value is located in the stream through its first 8 bytes.  Log (tab separated):
//
//	S served                                  number of stream bytes served by the end
//	R index call offset len                   every Read of the source, in order
//	H call consumer size offset hex pieces    a secret handed out by call #call; offset -1 = not a slice of the stream;
//	                                          pieces = the value cut into maximal runs found in the stream (off:len,...) or "-"
//	N call consumer size offset hex pieces    session id (offset -1 if it is not from the stream); not one of the four secrets
//	P call consumer reads                     padding draw: only the Reads it caused can be observed (the bytes are encrypted)
//
// consumer = nonce | new_nonce | dh_b | srp_a.  For dh_b the value is the exponent b left-padded to 256
// bytes (bytes 1..256 of an accepted 257-byte read); for srp_a the value printed is the a recovered
// from the Reads of that call such that g^a mod p equals the A the code returned ("-" if none does).
// The verdict (slices of the served stream, pairwise disjoint, nothing from elsewhere) is taken by
// lib/props/c19.py and re-checked in Coq (gen/DrawLog.v, Inst/C19f.v).
package main

import (
	"bytes"
	"crypto/rand"
	"encoding/binary"
	"encoding/hex"
	"fmt"
	"math/big"
	"os"
	"strconv"
	"sync"

	ige "github.com/xelaj/mtproto/internal/aes_ige"
	"github.com/xelaj/mtproto/internal/encoding/tl"
	imath "github.com/xelaj/mtproto/internal/math"
	"github.com/xelaj/mtproto/internal/utils"
	"github.com/xelaj/mtproto/telegram"
	vc "verifcommon"
)

const streamLen = 1 << 19

type read struct{ call, off, n int }

type recorder struct {
	mu     sync.Mutex
	stream []byte
	index  map[uint64]int // 8-byte window -> offset
	pos    int
	call   int
	reads  []read
	// fault plan: from the failAt-th Read of call failCall (counted from 1) on, failFor consecutive Reads fail with an
	// error and deliver nothing (1: a hiccup; 3: a retry loop runs out; a large number: the source is gone for the
	// rest of the exchange)
	failCall, failAt, seenInCall int
	failFor, failedN             int
}

func newRecorder(seed uint64) *recorder {
	for ; ; seed++ {
		r := &recorder{stream: vc.NewRng(seed ^ 0xc19f5e5).Bytes(streamLen), index: make(map[uint64]int, streamLen)}
		ok := true
		for i := 0; i+8 <= streamLen; i++ {
			w := binary.BigEndian.Uint64(r.stream[i:])
			if _, dup := r.index[w]; dup {
				ok = false
				break
			}
			r.index[w] = i
		}
		if ok {
			return r
		}
	}
}

func (r *recorder) Read(p []byte) (int, error) {
	r.mu.Lock()
	defer r.mu.Unlock()
	if r.pos+len(p) > len(r.stream) {
		fmt.Fprintln(os.Stderr, "c19 fresh: recording stream exhausted")
		os.Exit(3)
	}
	if r.failCall != 0 && r.call == r.failCall {
		r.seenInCall++
		if r.seenInCall >= r.failAt && r.failedN < r.failFor {
			r.failedN++
			return 0, errInjected
		}
	}
	copy(p, r.stream[r.pos:])
	r.reads = append(r.reads, read{r.call, r.pos, len(p)})
	r.pos += len(p)
	return len(p), nil
}

var errInjected = fmt.Errorf("verif: the system random source fails (injected)")

func (r *recorder) setCall(c int) { r.mu.Lock(); r.call = c; r.mu.Unlock() }

// failRead arms the fault plan: from the at-th Read made during call c on, n consecutive Reads fail
func (r *recorder) failRead(c, at, n int) {
	r.mu.Lock()
	r.failCall, r.failAt, r.seenInCall, r.failFor, r.failedN = c, at, 0, n, 0
	r.mu.Unlock()
}

func (r *recorder) nreads() int { r.mu.Lock(); defer r.mu.Unlock(); return len(r.reads) }

func (r *recorder) readsSince(k int) []read {
	r.mu.Lock()
	defer r.mu.Unlock()
	return append([]read(nil), r.reads[k:]...)
}

func (r *recorder) dump(f *os.File) {
	r.mu.Lock()
	defer r.mu.Unlock()
	for i, rd := range r.reads {
		fmt.Fprintf(f, "R\t%d\t%d\t%d\t%d\n", i, rd.call, rd.off, rd.n)
	}
	fmt.Fprintf(f, "S\t%d\n", r.pos)
}

// locate: offset of v in the part of the stream served so far, -1 if it is not there
func (r *recorder) locate(v []byte) int {
	if len(v) < 8 {
		return -1
	}
	off, ok := r.index[binary.BigEndian.Uint64(v)]
	if !ok || off+len(v) > r.pos || !bytes.Equal(r.stream[off:off+len(v)], v) {
		return -1
	}
	return off
}

// pieces: v cut greedily into maximal runs (of at least 8 bytes) that occur in the served stream,
// "off:len,off:len,..."; "-" if some part of v is not there.  One piece = v is a slice of the stream.
func (r *recorder) pieces(v []byte) string {
	out := ""
	for len(v) > 0 {
		if len(v) < 8 {
			return "-"
		}
		off, ok := r.index[binary.BigEndian.Uint64(v)]
		if !ok || off+8 > r.pos {
			return "-"
		}
		n := 8
		for n < len(v) && off+n < r.pos && r.stream[off+n] == v[n] {
			n++
		}
		if len(v)-n > 0 && len(v)-n < 8 { // keep the last piece long enough to be located
			n = len(v) - 8
			if n < 8 {
				return "-"
			}
		}
		if out != "" {
			out += ","
		}
		out += fmt.Sprintf("%d:%d", off, n)
		v = v[n:]
	}
	return out
}

func pad(b *big.Int, n int) []byte { return b.FillBytes(make([]byte, n)) }

func fresh(seed int64, srpCalls int, out string, streamSeed uint64) {
	rec := newRecorder(streamSeed)
	rand.Reader = rec
	f, err := os.Create(out)
	if err != nil {
		fmt.Fprintln(os.Stderr, err)
		os.Exit(3)
	}
	defer f.Close()
	next := func() int { rec.call++; return rec.call }
	hand := func(tag, consumer string, call int, v []byte) {
		fmt.Fprintf(f, "%s\t%d\t%s\t%d\t%d\t%s\t%s\n", tag, call, consumer, len(v), rec.locate(v), hex.EncodeToString(v), rec.pieces(v))
	}
	nonce := func() { c := next(); hand("H", "nonce", c, pad(tl.RandomInt128().Int, 16)) }
	newNonce := func() { c := next(); hand("H", "new_nonce", c, pad(tl.RandomInt256().Int, 32)) }
	ga, prime := big.NewInt(5), dhPrime2048
	dhB := func() {
		c := next()
		b, _, _ := imath.MakeGAB(3, ga, prime)
		hand("H", "dh_b", c, pad(b, 256))
	}
	session := func() {
		c := next()
		id := utils.GenerateSessionID()
		v := make([]byte, 8)
		binary.LittleEndian.PutUint64(v, uint64(id))
		if rec.locate(v) < 0 {
			w := make([]byte, 8)
			binary.BigEndian.PutUint64(w, uint64(id))
			if rec.locate(w) >= 0 {
				v = w
			}
		}
		hand("N", "session_id", c, v)
	}
	n1, n2 := big.NewInt(0x1234567), big.NewInt(0x7654321)
	padding := func(k int) {
		c := next()
		before := len(rec.reads)
		ige.EncryptMessageWithTempKeys(make([]byte, 40+k%16), n1, n2)
		fmt.Fprintf(f, "P\t%d\tpadding\t%d\n", c, len(rec.reads)-before)
	}
	// SRP: three groups in turn - a 2048-bit modulus with g = 3, a 1536-bit modulus (B sent left-padded to 256 bytes, as the
	// length check requires) with g = 3, a 2048-bit modulus with g = 2; a is recovered from the Reads of the call by
	// g^a mod p = A.  Whatever the group, the ephemeral must be bytes the source delivered during this call.
	r := vc.NewRng(uint64(seed))
	type srpGroup struct {
		g    int64
		pBig *big.Int
		ap   *telegram.AccountPassword
	}
	var groups []srpGroup
	for gi, spec := range [][2]int{{256, 3}, {192, 3}, {256, 2}} {
		p := r.Bytes(spec[0])
		p[0] |= 0x80
		p[len(p)-1] |= 1
		pBig := new(big.Int).SetBytes(p)
		groups = append(groups, srpGroup{int64(spec[1]), pBig, &telegram.AccountPassword{
			CurrentAlgo: &telegram.PasswordKdfAlgoSHA256SHA256PBKDF2HMACSHA512iter100000SHA256ModPow{
				Salt1: r.Bytes(8), Salt2: r.Bytes(16), G: int32(spec[1]), P: p},
			SRPB:  pad(new(big.Int).Sub(pBig, big.NewInt(12345)), 256),
			SRPID: int64(gi + 1),
			// what else the server puts into account.password - its own secure_random (of any length it likes), a hint, the
			// algorithms for a NEW password - must have no part in how much of the ephemeral comes from the system source
			SecureRandom: r.Bytes([]int{1, 0, 256}[gi%3]),
			Hint:         "h",
			HasRecovery:  gi%2 == 0,
			NewAlgo:      &telegram.PasswordKdfAlgoUnknown{},
		}})
	}
	srpN := 0
	srp := func() {
		c := next()
		grp := groups[srpN%len(groups)]
		srpN++
		before := len(rec.reads)
		res, err := telegram.GetInputCheckPassword("correct horse", grp.ap)
		o, ok := res.(*telegram.InputCheckPasswordSRPObj)
		if err != nil || !ok {
			fmt.Fprintln(os.Stderr, "GetInputCheckPassword:", err)
			os.Exit(3)
		}
		tries := 0
		for _, rd := range rec.reads[before:] {
			for off := rd.off; off+256 <= rd.off+rd.n && tries < 600; off++ {
				tries++
				a := rec.stream[off : off+256]
				if bytes.Equal(pad(new(big.Int).Exp(big.NewInt(grp.g), new(big.Int).SetBytes(a), grp.pBig), 256), o.A) {
					hand("H", "srp_a", c, a)
					return
				}
			}
		}
		// not a 256-byte window of what was read: is it an exponent of a few bits (A among g^0 .. g^65535)?
		acc := big.NewInt(1)
		gB := big.NewInt(grp.g)
		for e := 0; e < 65536; e++ {
			if bytes.Equal(pad(acc, 256), o.A) {
				fmt.Fprintf(f, "H\t%d\tsrp_a\t256\t-1\tSMALL=%d\t-\n", c, e)
				return
			}
			acc.Mul(acc, gB).Mod(acc, grp.pBig)
		}
		fmt.Fprintf(f, "H\t%d\tsrp_a\t256\t-1\tA=%s\t-\n", c, hex.EncodeToString(o.A))
	}

	for i := 0; i < 48; i++ { // phase 1
		nonce()
		newNonce()
	}
	for i := 0; i < 40; i++ { // phase 2
		session()
		nonce()
		newNonce()
		padding(i)
		dhB()
	}
	for i := 0; i < srpCalls; i++ { // phase 3
		srp()
		if i%2 == 0 {
			nonce()
		} else {
			newNonce()
		}
	}
	pick := vc.NewRng(uint64(seed) + 77)
	for i := 0; i < 120; i++ { // phase 4
		switch pick.Intn(8) {
		case 0, 1, 2:
			nonce()
		case 3, 4:
			newNonce()
		case 5:
			dhB()
		case 6:
			session()
		default:
			padding(pick.Intn(16))
		}
	}
	rec.dump(f)
	fmt.Printf("fresh: %d calls, %d reads, %d bytes served\n", rec.call, len(rec.reads), rec.pos)
}

func freshMain(args []string) {
	if len(args) != 3 && len(args) != 4 {
		fmt.Fprintln(os.Stderr, "usage: c19 fresh <seed> <srp calls> <log-out> [stream seed]")
		os.Exit(2)
	}
	seed, err1 := strconv.ParseInt(args[0], 10, 64)
	n, err2 := strconv.Atoi(args[1])
	if err1 != nil || err2 != nil {
		fmt.Fprintln(os.Stderr, "c19 fresh: bad arguments")
		os.Exit(2)
	}
	sseed := uint64(seed)
	if len(args) == 4 {
		sseed, _ = strconv.ParseUint(args[3], 10, 64)
	}
	fresh(seed, n, args[2], sseed)
}
