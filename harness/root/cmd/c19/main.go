// Harness for property C19 (secrets come from the OS cryptographic source): the dynamic witness.
//
//	c19 probe <seed>
//	c19 fresh <seed> <srp calls> <log-out>     (freshness stage, see fresh.go)
//	c19 exchange <seed> <n> <log-out>          (freshness through real key exchanges, see exchange.go)
//
// For each secret that can be generated without a network it asks the REAL code of the tree twice,
// calling math/rand.Seed(<seed>) before each run, and prints both results:
//
//	V nonce     <hex run 1> <hex run 2>     tl.RandomInt128()
//	V new_nonce <hex run 1> <hex run 2>     tl.RandomInt256()
//	V srp_a     <hex run 1> <hex run 2>     A = g^a mod p returned by telegram.GetInputCheckPassword (fixed p, g, B, salts)
//	B dh_b      <hex b> <t0> <t1> <s|->     b returned by math.MakeGAB; s = a clock reading in [t0,t1] (UnixNano taken around
//	                                        the call) such that big.Int.Rand(rand.New(rand.NewSource(s)), 2^2048) == b, "-" if none
//
// Equal values in a V line mean the secret is a function of the process-global math/rand stream
// (replay = the seed and the repeated value); a seed in the B line means the exponent is a function
// of the clock.  With the OS source the two runs differ and no clock reading reproduces b.
package main

import (
	"encoding/hex"
	"fmt"
	"math/big"
	"math/rand"
	"os"
	"strconv"
	"time"

	"github.com/xelaj/mtproto/internal/encoding/tl"
	imath "github.com/xelaj/mtproto/internal/math"
	"github.com/xelaj/mtproto/telegram"
	vc "verifcommon"
)

func twice(seed int64, f func() []byte) (string, string) {
	rand.Seed(seed) //nolint
	a := f()
	rand.Seed(seed) //nolint
	b := f()
	return hex.EncodeToString(a), hex.EncodeToString(b)
}

func srpA(r *vc.Rng) func() []byte {
	p := r.Bytes(256)
	p[0] |= 0x80
	p[255] |= 1
	b := new(big.Int).Sub(new(big.Int).SetBytes(p), big.NewInt(12345)).Bytes()
	ap := &telegram.AccountPassword{
		CurrentAlgo: &telegram.PasswordKdfAlgoSHA256SHA256PBKDF2HMACSHA512iter100000SHA256ModPow{
			Salt1: r.Bytes(8), Salt2: r.Bytes(16), G: 3, P: p},
		SRPB:  b,
		SRPID: 1,
	}
	return func() []byte {
		res, err := telegram.GetInputCheckPassword("correct horse", ap)
		if err != nil {
			fmt.Fprintln(os.Stderr, "GetInputCheckPassword:", err)
			os.Exit(3)
		}
		o, ok := res.(*telegram.InputCheckPasswordSRPObj)
		if !ok {
			fmt.Fprintln(os.Stderr, "GetInputCheckPassword: unexpected result type")
			os.Exit(3)
		}
		return o.A
	}
}

func main() {
	if len(os.Args) > 1 && os.Args[1] == "fresh" {
		freshMain(os.Args[2:])
		return
	}
	if len(os.Args) > 1 && os.Args[1] == "exchange" {
		exchangeMain(os.Args[2:])
		return
	}
	if len(os.Args) != 3 || os.Args[1] != "probe" {
		fmt.Fprintln(os.Stderr, "usage: c19 probe <seed> | c19 fresh <seed> <srp calls> <log-out> [stream seed] | c19 exchange <seed> <n> <log-out> [stream seed]")
		os.Exit(2)
	}
	seed, err := strconv.ParseInt(os.Args[2], 10, 64)
	if err != nil {
		fmt.Fprintln(os.Stderr, err)
		os.Exit(2)
	}
	x, y := twice(seed, func() []byte { return tl.RandomInt128().Bytes() })
	fmt.Printf("V\tnonce\t%s\t%s\n", x, y)
	x, y = twice(seed, func() []byte { return tl.RandomInt256().Bytes() })
	fmt.Printf("V\tnew_nonce\t%s\t%s\n", x, y)
	x, y = twice(seed, srpA(vc.NewRng(uint64(seed))))
	fmt.Printf("V\tsrp_a\t%s\t%s\n", x, y)

	// DH exponent: a small modulus keeps MakeGAB fast, so the clock window around the call is short
	// (b itself is always drawn below 2^2048, independent of the modulus)
	rndmax := new(big.Int).SetBit(new(big.Int), 2048, 1)
	ga, prime := big.NewInt(5), big.NewInt(1000003)
	imath.MakeGAB(3, ga, prime) // warm up
	t0 := time.Now().UnixNano()
	b, _, _ := imath.MakeGAB(3, ga, prime)
	t1 := time.Now().UnixNano()
	found := "-"
	for s := t0; s <= t1 && s < t0+3000000; s++ {
		if new(big.Int).Rand(rand.New(rand.NewSource(s)), rndmax).Cmp(b) == 0 { //nolint
			found = strconv.FormatInt(s, 10)
			break
		}
	}
	fmt.Printf("B\tdh_b\t%s\t%d\t%d\t%s\n", hex.EncodeToString(b.Bytes()), t0, t1, found)
}
