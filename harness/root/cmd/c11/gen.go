package main

// Random schedules: the schedule is drawn while it runs - at every point one of the enabled actions,
// chosen by a splitmix64 stream derived from VERIF_SEED and the schedule's index.

import (
	"fmt"
	"math"
	"strings"

	vc "verifcommon"
)

func randomConfig(g *vc.Rng, profile string, i int) config {
	c := config{warnCap: -1}
	switch profile {
	case "c16":
		switch g.Intn(4) {
		case 0:
			c.warnCap = -1
		case 1:
			c.warnCap = 1 // fills up at once: "buffered and full" unless drained
		case 2:
			c.warnCap = 1 + g.Intn(3)
		case 3:
			c.warnCap = 64 // practically never full
		}
		c.handler = []int{0, 0, 0, 1, 1, 2, 3}[g.Intn(7)]
		if g.Intn(8) == 0 {
			c.warnCap = -2
		}
		c.fresh = i%10 == 7
	case "c11":
		if g.Intn(3) == 0 {
			c.warnCap = 1 + g.Intn(4)
		}
		c.handler = []int{0, 0, 0, 0, 1, 2, 3}[g.Intn(7)]
		c.fresh = i%4 == 3
	default:
		// profile c10 keeps away from what C11 / C16 are about (rotations, fresh sessions, a Warnings channel
		// that can fill up): its subject is the numbering over reconnects and one ack per delivery
		if g.Intn(4) == 0 {
			c.warnCap = 64
		}
	}
	// one schedule in three: the network write is a step boundary of its own (everything the server can do with a
	// message may then happen before its sender is back from WriteMsg)
	c.wire = g.Intn(3) == 0
	// one schedule in six (profiles with salt messages): the session storage fails once, or always; its error goes to
	// warnError, so these schedules run without a Warnings channel (the model has no storage errors to warn about)
	if (profile == "c11" || profile == "c16") && !c.fresh && g.Intn(6) == 0 {
		c.store = []string{"fail1", "failall"}[g.Intn(2)]
		c.warnCap = -1
	}
	return c
}

type weights struct {
	rotate, hostile, close, service, dup, drain int
}

func profileWeights(p string) weights {
	switch p {
	case "c11":
		return weights{rotate: 2, hostile: 0, close: 2, service: 1, dup: 0, drain: 1}
	case "c16":
		return weights{rotate: 1, hostile: 3, close: 3, service: 2, dup: 1, drain: 1}
	default:
		return weights{rotate: 0, hostile: 1, close: 2, service: 3, dup: 3, drain: 0}
	}
}

// salts at the corners of int64 (the field is a 64-bit integer without any structure)
var extremeSalts = []int64{0, 1, -1, 1 << 32, (1 << 32) + 5, -(1 << 40), math.MaxInt64, math.MinInt64, math.MaxInt32, math.MinInt32}

// seq_nos with the top bit set (and the largest one without), by parity of the low bit
var bigOddSeqs = []int32{-2147483647, -1, 2147483647}
var bigEvenSeqs = []int32{-2147483648, -2}

var gzDamage = []string{"crc", "isize", "deflate"}

var rawVariants = []string{"errcode", "badparity", "truncated", "corrupt", "wrongkey"}

// playRandom draws the schedule while it runs.
func (r *run) playRandom(g *vc.Rng, profile string) {
	w := profileWeights(profile)
	n := len(r.callers)
	left := make([]int, n)
	for t := range left {
		left[t] = 1 + g.Intn(2)
	}
	tokenBase := int64(r.idx%1000)*1000 + 10
	ntok := int64(0)
	rotations := 0
	switch profile {
	case "c11":
		rotations = 1 + g.Intn(2)
		if g.Intn(8) == 0 {
			rotations = 0
		}
	case "c16":
		rotations = g.Intn(2)
	default:
		rotations = 0
	}
	closes := 0
	if w.close > 0 {
		closes = g.Intn(w.close + 1)
		if profile == "c10" && closes == 0 && g.Intn(3) > 0 {
			closes = 1
		}
		if profile == "c16" && g.Intn(10) == 0 {
			// a long-lived client: the server closes the connection again and again (every close is a new connection
			// generation; nothing may be used up, counted down or left behind per reconnect)
			closes = 6 + g.Intn(7)
		}
	}
	hostile := 0
	if w.hostile > 0 {
		hostile = 1 + g.Intn(2*w.hostile)
	}
	service := g.Intn(1 + 2*w.service)
	// budgets one above a small constant of the client's own sources (a retry budget, a queue length, a counter's
	// limit are boundaries of the implementation no protocol document knows): one schedule in twelve repeats ONE kind
	// of event that many times
	if lits := vc.SourceLiterals(2, 40, ".", "internal/utils", "internal/transport"); len(lits) > 0 && g.Intn(12) == 0 {
		k := lits[g.Intn(len(lits))] + 1
		switch g.Intn(3) {
		case 0:
			if w.close > 0 {
				closes = k
			}
		case 1:
			if w.hostile > 0 {
				hostile = k
			}
		case 2:
			service = k
		}
	}
	dups := 0
	if w.dup > 0 {
		dups = g.Intn(1 + w.dup)
	}
	nextSid := int64(0)
	sid := func(answer bool) int64 {
		nextSid += 4
		if answer {
			return nextSid + 1
		}
		return nextSid + 3
	}
	nextSalt := int64(1000 + 10*(r.idx%50))
	var saltHistory []int64 // salts announced by rotations so far
	pGz := 10 + g.Intn(30)
	type contentMsg struct {
		line string
		sid  int64
		seq  int32
		b    *bodySpec
	}
	var contents []contentMsg // content-related service messages already sent (candidates for a repeat)
	// seq_no is a 32-bit pattern whose low bit says "content-related": in the c10 and c16 profiles one message
	// (and one container item) in ten carries a seq_no at or above 2^31 of the same parity - as int32 these are
	// negative: 0x80000001, 0xffffffff, 0x7fffffff (just below) odd; 0x80000000, 0xfffffffe even
	wide := func(seq int32) int32 {
		if (profile != "c10" && profile != "c16") || g.Intn(10) != 0 {
			return seq
		}
		if seq&1 == 1 {
			return bigOddSeqs[g.Intn(len(bigOddSeqs))]
		}
		return bigEvenSeqs[g.Intn(len(bigEvenSeqs))]
	}
	send := func(s int64, seq int32, b *bodySpec) {
		seq = wide(seq)
		if b.op == "cont" {
			for i := range b.items {
				b.items[i].seq = wide(b.items[i].seq)
			}
		}
		r.slog(fmt.Sprintf("srv %d %d %s", s, seq, b.script()))
		r.doSrv(s, seq, b)
	}
	for steps := 0; steps < 1500; steps++ {
		type act struct {
			kind  string
			t     int
			actor string
		}
		var acts []act
		for t, c := range r.callers {
			if t < n && c.active == nil && left[t] > 0 {
				acts = append(acts, act{kind: "call", t: t})
			}
			if r.enabled(c.name) {
				acts = append(acts, act{kind: "step", actor: c.name}, act{kind: "step", actor: c.name})
			}
		}
		if r.enabled(r.rx) {
			acts = append(acts, act{kind: "step", actor: r.rx}, act{kind: "step", actor: r.rx}, act{kind: "step", actor: r.rx})
		}
		if r.earlyOwner() != nil {
			acts = append(acts, act{kind: "early"}, act{kind: "early"}, act{kind: "early"})
		}
		var open []*callState // latest id seen by the server, not yet answered
		var openT []int
		var written []*callState // any call with at least one frame on the wire
		var writtenT []int
		for t, c := range r.callers {
			for _, cs := range c.calls {
				if len(cs.ids) > 0 {
					written = append(written, cs)
					writtenT = append(writtenT, t)
				}
			}
			if c.active != nil && c.active.frame >= 0 && c.active.answers == 0 && len(c.active.ids) > 0 &&
				c.active.ids[len(c.active.ids)-1] == c.active.msgID && !r.wasRejected(c.active.msgID) {
				open = append(open, c.active)
				openT = append(openT, t)
			}
		}
		canSend := !r.closePending
		if canSend && len(open) > 0 {
			acts = append(acts, act{kind: "srv"}, act{kind: "srv"})
		}
		if canSend && rotations > 0 && len(written) > 0 {
			acts = append(acts, act{kind: "rotate"})
		}
		if canSend && hostile > 0 {
			acts = append(acts, act{kind: "hostile"})
		}
		if canSend && service > 0 {
			acts = append(acts, act{kind: "svc"})
		}
		if canSend && dups > 0 && len(contents) > 0 {
			acts = append(acts, act{kind: "dup"})
		}
		if closes > 0 && r.canClose() {
			acts = append(acts, act{kind: "close"})
		}
		if w.drain > 0 && r.warnLen() > 0 {
			acts = append(acts, act{kind: "drain"})
		}
		if len(acts) == 0 {
			break
		}
		onlyOptional := true
		for _, a := range acts {
			if a.kind == "call" || a.kind == "step" || a.kind == "srv" || a.kind == "early" {
				onlyOptional = false
			}
		}
		a := acts[g.Intn(len(acts))]
		if onlyOptional && g.Intn(3) == 0 {
			break
		}
		switch a.kind {
		case "call":
			left[a.t]--
			k := kinds[g.Intn(len(kinds))]
			sp := callSpec{kind: k, hinted: k == "vecbare" || k == "vecobj", token: tokenBase + 3*ntok}
			if !sp.hinted && g.Intn(8) == 0 {
				sp.hinted = true
			}
			ntok++
			r.slog(fmt.Sprintf("call %d %s %s %d", a.t, sp.kind, b01(sp.hinted), sp.token))
			r.doCall(a.t, sp)
		case "early":
			r.slog("early rx")
			r.doEarly()
			if r.aborted {
				return
			}
		case "step":
			show := a.actor
			if a.actor == r.rx {
				show = "rx"
			}
			r.slog("step " + show)
			r.doStep(a.actor)
		case "close":
			closes--
			r.slog("close")
			r.doClose()
		case "drain":
			r.slog("drain")
			r.doDrain()
		case "svc":
			service--
			var b *bodySpec
			switch g.Intn(5) {
			case 0:
				b = &bodySpec{op: "pong"}
			case 1:
				b = &bodySpec{op: "ack"}
			case 2:
				b = &bodySpec{op: "newsess", salt: nextSalt}
				saltHistory = append(saltHistory, nextSalt)
				nextSalt++
			default:
				b = &bodySpec{op: "svc", n: g.Intn(64)}
			}
			seq := int32(2 * g.Intn(50))
			if b.op == "newsess" || b.op == "svc" {
				seq |= 1
			}
			s := sid(false)
			if g.Intn(6) == 0 {
				b = &bodySpec{op: "gz", inner: b}
			}
			send(s, seq, b)
			if seq&1 == 1 && b.op == "svc" && serviceBody(b.n).decodes {
				contents = append(contents, contentMsg{sid: s, seq: seq, b: b})
			}
		case "dup":
			dups--
			c := contents[g.Intn(len(contents))]
			switch g.Intn(3) {
			case 0: // the very same message once more (the server missed the ack)
				send(c.sid, c.seq, c.b)
			case 1: // a new content-related message with a msg id BELOW an earlier one
				low := c.sid - 4*int64(1+g.Intn(3))
				if low < 3 {
					low = c.sid
				}
				send(low, c.seq, &bodySpec{op: "svc", n: g.Intn(64)})
			default: // the repeat inside a container, after a newer item
				top := &bodySpec{op: "cont"}
				top.items = append(top.items, itemSpec{sid: sid(false), seq: 1, body: &bodySpec{op: "svc", n: 0}})
				top.items = append(top.items, itemSpec{sid: c.sid, seq: c.seq, body: c.b})
				send(sid(false), 2, top)
			}
		case "rotate":
			rotations--
			// the salt this rotation announces: a new one, the one announced last (one rotation, several rejected
			// requests: the server sends one bad_server_salt per request, all with the same salt), or an earlier one
			salt := nextSalt
			switch {
			case len(saltHistory) > 0 && g.Intn(3) == 0:
				salt = saltHistory[len(saltHistory)-1]
			case len(saltHistory) > 1 && g.Intn(4) == 0:
				salt = saltHistory[g.Intn(len(saltHistory))]
			case g.Intn(5) == 0:
				salt = extremeSalts[g.Intn(len(extremeSalts))]
			default:
				nextSalt++
			}
			saltHistory = append(saltHistory, salt)
			ref := func(i int) string { return fmt.Sprintf("@%d.%d", openT[i], open[i].k) }
			mode := g.Intn(10)
			switch {
			case len(open) >= 2 && mode < 3:
				// every pending request is rejected, each by its own bad_server_salt, all naming the same salt
				for i := range open {
					send(sid(false), int32(2*g.Intn(50)), &bodySpec{op: "badsalt", ref: ref(i), salt: salt})
				}
				continue
			case len(open) >= 2 && mode < 5:
				// ... the same in one container
				top := &bodySpec{op: "cont"}
				for i := range open {
					top.items = append(top.items, itemSpec{sid: sid(false), seq: int32(2 * g.Intn(50)), body: &bodySpec{op: "badsalt", ref: ref(i), salt: salt}})
				}
				send(sid(false), 2, top)
				continue
			case len(open) >= 1 && mode < 7:
				// new_session_created announces the salt first, then a request sent under the old one is rejected with it
				send(sid(false), 1, &bodySpec{op: "newsess", salt: salt})
				send(sid(false), int32(2*g.Intn(50)), &bodySpec{op: "badsalt", ref: ref(g.Intn(len(open))), salt: salt})
				continue
			}
			var b *bodySpec
			pick := g.Intn(10)
			switch {
			case len(open) > 0 && pick < 6: // a pending request is rejected
				i := g.Intn(len(open))
				b = &bodySpec{op: "badsalt", ref: fmt.Sprintf("@%d.%d", openT[i], open[i].k), salt: salt}
			case pick < 8: // some request already written: answered, or an earlier attempt of a retried one
				i := g.Intn(len(written))
				j := g.Intn(len(written[i].ids))
				b = &bodySpec{op: "badsalt", ref: fmt.Sprintf("@%d.%d.%d", writtenT[i], written[i].k, j), salt: salt}
			case pick < 9 && r.acksWritten() > 0: // a msgs_ack of the client (sent under the old salt: a server rejects it too)
				b = &bodySpec{op: "badsalt", ref: fmt.Sprintf("ack.%d", g.Intn(r.acksWritten())), salt: salt}
			default: // an id the client never used
				b = &bodySpec{op: "badsalt", ref: fmt.Sprintf("%d", 4*(1000000+g.Intn(1000))), salt: salt}
			}
			seq := int32(2 * g.Intn(50))
			if g.Intn(8) == 0 {
				seq |= 1
			}
			switch {
			case len(open) > 1 && g.Intn(3) == 0:
				// the rejection and the answer to ANOTHER (accepted) request in one container
				var other *callState
				var ot int
				for i, cs := range open {
					if !strings.HasPrefix(b.ref, fmt.Sprintf("@%d.%d", openT[i], cs.k)) {
						other, ot = cs, openT[i]
					}
				}
				top := &bodySpec{op: "cont"}
				ans := &bodySpec{op: "res", ref: fmt.Sprintf("@%d.%d", ot, other.k), kind: other.spec.kind, tok: other.spec.token}
				if other.spec.kind == "err" {
					ans.op = "err"
				}
				if (other.spec.kind == "vecbare" || other.spec.kind == "vecobj") && !other.spec.hinted {
					ans.kind = "obj"
				}
				items := []itemSpec{{sid: sid(false), seq: seq, body: b}, {sid: sid(true), seq: 1, body: ans}}
				if g.Bool() {
					items[0], items[1] = items[1], items[0]
				}
				top.items = items
				send(sid(true), 2, top)
			case g.Intn(8) == 0:
				send(sid(false), seq, &bodySpec{op: "gz", inner: b})
			default:
				send(sid(false), seq, b)
			}
		case "hostile":
			hostile--
			s := sid(true)
			seq := int32(g.Intn(100))
			switch g.Intn(11) {
			case 9: // gzip_packed with a valid header and complete data but a damaged stream, at top level:
				// around a service message, an unhandled object, a container
				dmg := gzDamage[g.Intn(len(gzDamage))]
				var inner *bodySpec
				switch g.Intn(3) {
				case 0:
					inner = &bodySpec{op: "pong"}
				case 1:
					inner = &bodySpec{op: "svc", n: g.Intn(64)}
				default:
					inner = &bodySpec{op: "cont", items: []itemSpec{{sid: sid(false), seq: 0, body: &bodySpec{op: "pong"}}, {sid: sid(false), seq: 1, body: &bodySpec{op: "svc", n: g.Intn(64)}}}}
				}
				send(s, seq, &bodySpec{op: "gz", inner: inner, gzbad: dmg})
			case 10: // ... inside rpc_result: for a pending request (bad trailer: the library takes the result; corrupt
				// data: nobody is answered, the request stays open) or for an id nobody waits for
				dmg := gzDamage[g.Intn(len(gzDamage))]
				if len(open) > 0 {
					i := g.Intn(len(open))
					b := &bodySpec{op: "res", ref: fmt.Sprintf("@%d.%d", openT[i], open[i].k), kind: open[i].spec.kind, tok: open[i].spec.token, gz: true, gzbad: dmg}
					if open[i].spec.kind == "err" {
						b.op = "err"
					}
					if (open[i].spec.kind == "vecbare" || open[i].spec.kind == "vecobj") && !open[i].spec.hinted {
						b.kind = "obj"
					}
					send(s, seq|1, b)
				} else {
					send(s, seq|1, &bodySpec{op: "res", ref: fmt.Sprintf("%d", 4*(3000000+g.Intn(1000))), kind: "obj", tok: 5, gz: true, gzbad: dmg})
				}
			case 0:
				v := rawVariants[g.Intn(len(rawVariants))]
				r.slog("raw " + v)
				r.doRaw(v)
			case 1:
				send(s, seq, &bodySpec{op: "garbage", n: g.Intn(8 * garbageVariants)})
			case 2:
				ref := fmt.Sprintf("%d", 4*(2000000+g.Intn(1000)))
				if len(written) > 0 && g.Bool() {
					i := g.Intn(len(written))
					ref = fmt.Sprintf("@%d.%d", writtenT[i], written[i].k)
				}
				send(s, seq, &bodySpec{op: "badmsg", ref: ref})
			case 3: // rpc_result for an id nobody waits for
				send(s, seq|1, &bodySpec{op: "res", ref: fmt.Sprintf("%d", 4*(3000000+g.Intn(1000))), kind: "obj", tok: 5, gz: g.Intn(4) == 0})
			case 4: // rpc_result for an id that was already answered (or rejected and re-sent)
				var cands []string
				for i, cs := range written {
					if cs.done || cs.answers > 0 {
						cands = append(cands, fmt.Sprintf("@%d.%d", writtenT[i], cs.k))
					}
					if len(cs.ids) > 1 {
						cands = append(cands, fmt.Sprintf("@%d.%d.0", writtenT[i], cs.k))
					}
				}
				if len(cands) == 0 {
					send(s, seq|1, &bodySpec{op: "res", ref: fmt.Sprintf("%d", 4*(3000000+g.Intn(1000))), kind: "bool", tok: 1})
				} else {
					send(s, seq|1, &bodySpec{op: "res", ref: cands[g.Intn(len(cands))], kind: "obj", tok: 6})
				}
			case 5: // empty container / nested containers
				inner := &bodySpec{op: "cont"}
				if g.Bool() {
					inner.items = []itemSpec{{sid: sid(false), seq: 2, body: &bodySpec{op: "cont"}}, {sid: sid(false), seq: 1, body: &bodySpec{op: "svc", n: g.Intn(64)}}}
				}
				if g.Bool() {
					send(s, seq, inner)
				} else {
					send(s, seq, &bodySpec{op: "cont", items: []itemSpec{{sid: sid(false), seq: 2, body: inner}, {sid: sid(false), seq: 0, body: &bodySpec{op: "pong"}}}})
				}
			case 6: // a container whose middle item is undecodable: the rest of it is abandoned
				top := &bodySpec{op: "cont"}
				top.items = append(top.items, itemSpec{sid: sid(false), seq: 1, body: &bodySpec{op: "svc", n: g.Intn(64)}})
				top.items = append(top.items, itemSpec{sid: sid(false), seq: int32(g.Intn(4)), body: &bodySpec{op: "garbage", n: g.Intn(8 * garbageVariants)}})
				top.items = append(top.items, itemSpec{sid: sid(false), seq: 1, body: &bodySpec{op: "svc", n: g.Intn(64)}})
				send(s, seq, top)
			case 7: // every service constructor
				send(s, seq, &bodySpec{op: "svc", n: g.Intn(64)})
			default: // an unhandled object gzip-packed (twice)
				send(s, seq, &bodySpec{op: "gz", inner: &bodySpec{op: "gz", inner: &bodySpec{op: "svc", n: g.Intn(64)}}})
			}
		case "srv":
			for i := len(open) - 1; i > 0; i-- {
				j := g.Intn(i + 1)
				open[i], open[j] = open[j], open[i]
				openT[i], openT[j] = openT[j], openT[i]
			}
			k := 1 + g.Intn(len(open))
			if k > 3 {
				k = 3
			}
			var bodies []*bodySpec
			for i, cs := range open[:k] {
				b := &bodySpec{op: "res", ref: fmt.Sprintf("@%d.%d", openT[i], cs.k), kind: cs.spec.kind, tok: cs.spec.token, gz: g.Intn(100) < pGz}
				if cs.spec.kind == "err" {
					b.op = "err"
				}
				if (cs.spec.kind == "vecbare" || cs.spec.kind == "vecobj") && !cs.spec.hinted {
					b.kind = "obj"
				}
				bodies = append(bodies, b)
			}
			var top *bodySpec
			seq := int32(2*g.Intn(50)) | 1
			form := g.Intn(10)
			switch {
			case k == 1 && form < 5:
				top = bodies[0]
			case k == 1 && form < 6:
				top = &bodySpec{op: "gz", inner: bodies[0]}
			default:
				top = &bodySpec{op: "cont"}
				for _, b := range bodies {
					if g.Intn(4) == 0 {
						sb := &bodySpec{op: []string{"pong", "ack", "upd"}[g.Intn(3)]}
						sq := int32(2 * g.Intn(50))
						if sb.op == "upd" {
							sq |= 1
						}
						top.items = append(top.items, itemSpec{sid: sid(false), seq: sq, body: sb})
					}
					top.items = append(top.items, itemSpec{sid: sid(true), seq: int32(2*g.Intn(50)) | 1, body: b})
				}
				if g.Intn(10) < 7 {
					seq &^= 1
				}
			}
			send(sid(true), seq, top)
		}
	}
}

// ---- registry sweep (profile c16r) -----------------------------------------------------------------

const regChunk = 300 // objects per schedule: two connections of 150

// registrySchedules: arg "all" = every registered constructor in three variants (random / all conditional fields
// absent / all present) and every enum id; "all1" = every constructor once, the variant drawn by the seed, and
// every enum id; arg N = a sample of N of them, drawn by the seed.
func registrySchedules(arg string, seed uint64) []script {
	g := vc.NewRng(seed ^ 0xc16e9)
	var items []regItem
	if arg == "all" {
		items = regItems(3)
	} else if arg == "all1" {
		items = regItems(1)
		for i := range items {
			if items[i].op == "reg" {
				items[i].variant = g.Intn(3)
			}
		}
	} else {
		items = regItems(1)
		for i := range items {
			if items[i].op == "reg" {
				items[i].variant = g.Intn(3)
			}
		}
	}
	for i := len(items) - 1; i > 0; i-- {
		j := g.Intn(i + 1)
		items[i], items[j] = items[j], items[i]
	}
	if arg != "all" && arg != "all1" {
		n := 0
		fmt.Sscanf(arg, "%d", &n)
		if n < len(items) {
			items = items[:n]
		}
	}
	// most objects go the default way (no handler: reflect type name + warnError); one schedule in six each for an
	// accepting handler and for a declining one followed by an accepting one
	warns := []int{64, -1, 2, 64, -2, 1}
	handlers := []int{0, 0, 2, 1, 0, 3}
	var out []script
	for i := 0; i*regChunk < len(items); i++ {
		hi := (i + 1) * regChunk
		if hi > len(items) {
			hi = len(items)
		}
		out = append(out, script{idx: i, ncallers: 1, desc: "registry-sweep",
			cfg: config{warnCap: warns[i%len(warns)], handler: handlers[i%len(handlers)]}, items: items[i*regChunk : hi]})
	}
	return out
}

// playRegistry sends every item as an update with an odd seq_no: plain; every 10th inside a container with the
// result of a pending call behind it; every 25th gzip-packed; a probe call every 50 objects; one orderly close in
// the middle. After each message everything that is enabled runs, so a stall or a death is tied to one object.
func (r *run) playRegistry(items []regItem) {
	nextSid := int64(0)
	sid := func() int64 { nextSid += 4; return nextSid + 3 }
	tok := int64(r.idx%1000)*1000 + 10
	send := func(s int64, seq int32, b *bodySpec) {
		r.slog(fmt.Sprintf("srv %d %d %s", s, seq, b.script()))
		r.doSrv(s, seq, b)
		r.slog("settle")
		r.runEnabled()
	}
	for i, it := range items {
		b := &bodySpec{op: it.op, crc: it.crc, n: it.variant}
		seq := int32(2*(i%40)) | 1
		switch {
		case i%10 == 9:
			c := r.callers[0]
			if c.active == nil {
				tok += 3
				r.slog(fmt.Sprintf("call 0 obj 0 %d", tok))
				r.doCall(0, callSpec{kind: "obj", token: tok})
				r.slog("settle")
				r.runEnabled()
			}
			cs := c.active
			top := &bodySpec{op: "cont"}
			top.items = append(top.items, itemSpec{sid: sid(), seq: seq, body: b})
			if cs != nil && cs.frame >= 0 && cs.answers == 0 {
				top.items = append(top.items, itemSpec{sid: sid() - 2, seq: 3, body: &bodySpec{op: "res", ref: fmt.Sprintf("@0.%d", cs.k), kind: "obj", tok: cs.spec.token}})
			}
			send(sid(), 2, top)
		case i%25 == 24:
			send(sid(), seq, &bodySpec{op: "gz", inner: b})
		default:
			send(sid(), seq, b)
		}
		if i%50 == 49 {
			r.slog("probe")
			r.probe()
		}
		if i == len(items)/2 && len(items) >= 100 && r.canClose() {
			r.slog("close")
			r.doClose()
			r.slog("settle")
			r.runEnabled()
		}
	}
}
