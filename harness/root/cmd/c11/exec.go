package main

// Executor: runs ONE schedule against the real client (built with -tags verif) and the in-process
// reference server under the controlled scheduler (package csched). It only knows Go semantics (a
// mutex is free or held, an unbuffered channel needs both parties, a socket read needs data or a
// closed peer); the Coq model is not consulted here. Every action and what was observed after it is
// appended to the trace; the direct oracles of C11, C16 and C10 are evaluated at the end.
//
// Extends cmd/c09 with: salt rotation (bad_server_salt / new_session_created, per-attempt msg ids,
// salt field and session file as observables), hostile messages (undecodable bodies, rpc_results
// for unknown or answered ids, bad_msg_notification, transport-level garbage), the Warnings channel
// (nil / buffered, drained or not) and a custom handler, connection close + reconnect (the receive
// loop becomes a new goroutine), freshly keyed sessions (key exchange served by keyex.go), repeated
// and out-of-order server msg ids, and a probe call at the end of every schedule.

import (
	"bytes"
	"errors"
	"compress/flate"
	"compress/gzip"
	"encoding/binary"
	"fmt"
	"io"
	"math/big"
	"os"
	"path/filepath"
	"reflect"
	"runtime"
	"sort"
	"strconv"
	"strings"
	"sync"
	"sync/atomic"
	"time"
	"unsafe"

	"github.com/xelaj/mtproto"
	"github.com/xelaj/mtproto/internal/encoding/tl"
	"github.com/xelaj/mtproto/internal/mtproto/messages"
	"github.com/xelaj/mtproto/internal/mtproto/objects"
	"github.com/xelaj/mtproto/internal/transport"
	"github.com/xelaj/mtproto/internal/session"
	"github.com/xelaj/mtproto/telegram"
	"github.com/xelaj/mtproto/verifharness/csched"
	"github.com/xelaj/mtproto/verifharness/refserver"
)

var watchdog = watchdogFromEnv()

// how long a send that nobody can take is watched before it is called a stall (VERIF_STALL_MS overrides)
var stallWait = stallWaitFromEnv()

type config struct {
	warnCap int // -1: nil channel; -2: unbuffered channel with a live reader; >= 0: buffered with that capacity
	handler int // 0: none; 1: one that accepts everything; 2: one that declines; 3: one that declines, then one that accepts
	fresh   bool
	wire    bool // the network write is a step boundary of its own (transport wrapped, yield point "wire")
	store   string // "" (the store works) | fail1 (the first Store after the set-up fails) | failall (every Store fails)
}

func (c config) String() string {
	w := "nil"
	if c.warnCap >= 0 {
		w = "buf:" + strconv.Itoa(c.warnCap)
	}
	if c.warnCap == -2 {
		w = "live"
	}
	x := ""
	if c.wire {
		x += " wire=1"
	}
	if c.store != "" {
		x += " store=" + c.store
	}
	return fmt.Sprintf("warn=%s handler=%d fresh=%s", w, c.handler, b01(c.fresh)) + x
}

func b01(b bool) string {
	if b {
		return "1"
	}
	return "0"
}

func parseConfig(tok []string) config {
	c := config{warnCap: -1}
	for _, t := range tok {
		kv := strings.SplitN(t, "=", 2)
		if len(kv) != 2 {
			continue
		}
		switch kv[0] {
		case "warn":
			if strings.HasPrefix(kv[1], "buf:") {
				c.warnCap, _ = strconv.Atoi(kv[1][4:])
			}
			if kv[1] == "live" {
				c.warnCap = -2
			}
		case "handler":
			c.handler, _ = strconv.Atoi(kv[1])
		case "fresh":
			c.fresh = kv[1] == "1"
		case "wire":
			c.wire = kv[1] == "1"
		case "store":
			c.store = kv[1]
		}
	}
	return c
}

type callSpec struct {
	kind   string // obj bool vecbare vecobj err
	hinted bool
	token  int64
}

type callState struct {
	spec    callSpec
	k       int
	ids     []int64 // msg id of every attempt, in order
	msgID   int64   // latest id seen at a yield point of this call
	frame   int     // index of the latest request frame in the server log (-1 until written)
	done    bool
	got     string
	answers int // how many answers the server has addressed to its latest id
}

type callerState struct {
	name   string
	cmd    chan callSpec
	calls  []*callState
	active *callState
}

type sentMsg struct {
	sid      int64
	seq      int32
	class    string
	atFrames int  // number of client frames logged when it was sent
	failing  bool // its processing ends in an error by design (garbage, unknown id, ...); it is acknowledged all the same
	inFailed bool // it sits in a container behind / around a failing item (informational)
}

type rejection struct {
	id       int64 // msg id named by the bad_server_salt
	salt     int64
	atFrames int
	order    int // position among all salts sent
}

type run struct {
	lastConnErr string // the error of the last failed CreateConnection of a freshly keyed set-up
	idx     int
	cfg     config
	sc      *csched.Sched
	srv     *refserver.Server
	front   *front
	cl      *mtproto.MTProto
	callers []*callerState
	rx      string          // actor name of the current receive loop
	rxSeen  map[string]bool // every receive loop actor seen so far
	inRecv  map[string]bool // callers that passed "prerecv"
	store   *faultStore
	sawWire map[string]bool // senders whose frame was observed at "wire" (configuration wire=1)
	nwire   int
	deferE     bool // the E line of the schedule is written after the epilogue
	silent     bool // epilogue: nothing is recorded any more
	holdReconn bool // epilogue: the receive loop parks at "reconnecting" (between Disconnect and CreateConnection)
	nearly  int  // channel sends tried before the owner listened (doEarly)
	aborted bool // a direct oracle failed in a way that leaves nothing to schedule
	lock    string          // actor holding the send lock
	reads   int             // top-level frames the receive loops have taken
	base    int64
	t0      time.Time
	out     *traceWriter
	nact    int
	lastID  int64
	nframes int
	sent    []sentMsg
	status  string
	random  bool
	dir     string
	sess    string

	controlled   int32 // 1 while the scheduler parks goroutines
	warnings     chan error
	handled      int64
	declined     int64
	liveWarnings int64
	initSalt     int64 // salt of the session at the start (shown as 0 / as keyexSalt for fresh sessions)
	conns        int   // connection generations seen
	closePending bool
	rejections   []rejection
	saltsSent    []int64
	plainBase    int // plain frames at the end of the set-up
	lastClass    string
	msgClass     string // class of the message the receive loop is working on
	nextCloseSid int64
	nprobes      int
	profile      string
}

const keyexSalt = 55 // how the salt of a fresh key exchange is shown to the model

type traceWriter struct{ f *os.File }

func (w *traceWriter) line(fields ...string) {
	w.f.WriteString(strings.Join(fields, "\t") + "\n")
}

func (r *run) actorCaller(name string) *callerState {
	for _, c := range r.callers {
		if c.name == name {
			return c
		}
	}
	return nil
}

type harnessTrouble struct{ msg string }

func trouble(f string, a ...interface{}) { panic(harnessTrouble{fmt.Sprintf(f, a...)}) }

// setupRefused: the set-up of a freshly keyed schedule cannot be made because the client's session store
// (no fault planned yet) refuses the session every time
type setupRefused struct{ msg string }

type stuck struct{ what, stack string }

// showSalt maps the salts of the run to what the model sees.
func (r *run) showSalt(s int64) string {
	if s == r.initSalt {
		if r.cfg.fresh {
			return strconv.Itoa(keyexSalt)
		}
		return "0"
	}
	return strconv.FormatInt(s, 10)
}

func (r *run) hook(point string, id int64) {
	if atomic.LoadInt32(&r.controlled) == 1 {
		r.sc.Hook(point, id)
	}
}

// faultStore is the session storage of every run: the file loader of the library behind a counter, and - configuration
// store=fail1 / store=failall - behind a fault plan: the first Store after the set-up, or every one, fails (a read-only
// file system, a full disk, a storage service that is away).  SaveSession's error is only reported (Warnings); whatever
// else the handler of the message has to do - wake the rejected caller, go on with the container - must still happen,
// and a later announcement of the same salt must be stored again.
type faultStore struct {
	inner    session.SessionLoader
	mu       sync.Mutex
	armed    bool
	plan     string
	calls    int
	failed   int
	lastSalt int64
	hasLast  bool
}

var errInjectedStore = errors.New("verif: the session storage fails (injected)")

func (f *faultStore) Load() (*session.Session, error) { return f.inner.Load() }

func (f *faultStore) Store(s *session.Session) error {
	f.mu.Lock()
	defer f.mu.Unlock()
	if f.armed {
		f.calls++
		f.lastSalt, f.hasLast = s.Salt, true
		if f.plan == "failall" || (f.plan == "fail1" && f.calls == 1) {
			f.failed++
			return errInjectedStore
		}
	}
	return f.inner.Store(s)
}

func (f *faultStore) arm() { f.mu.Lock(); f.armed = true; f.mu.Unlock() }

func (f *faultStore) state() (calls int, last int64, has bool) {
	f.mu.Lock()
	defer f.mu.Unlock()
	return f.calls, f.lastSalt, f.hasLast
}

// wireTransport makes the network write itself a scheduling point (configuration wire=1): the bytes are out - the
// server can answer or reject the message - but WriteMsg has not returned to sendPacket yet. For the model the write
// step is complete at "wire"; the step from there to the sender's "written" yield is a stutter (no shared state may
// change in it: whatever sendPacket does after the write touches only the sender's own counter).
type wireTransport struct {
	transport.Transport
	r *run
}

func (w wireTransport) WriteMsg(msg messages.Common, requireToAck bool) error {
	err := w.Transport.WriteMsg(msg, requireToAck)
	if err == nil {
		w.r.hook("wire", int64(msg.GetMsgID()))
	}
	return err
}

// wrapTransport replaces m.transport (unexported: reflection) by the wrapper. Called while every client goroutine
// is parked, after the set-up and after every reconnect (CreateConnection makes a new transport).
func (r *run) wrapTransport() {
	if !r.cfg.wire {
		return
	}
	f := reflect.ValueOf(r.cl).Elem().FieldByName("transport")
	if !f.IsValid() || f.Kind() != reflect.Interface {
		trouble("no transport field in MTProto")
	}
	p := (*transport.Transport)(unsafe.Pointer(f.UnsafeAddr()))
	if _, done := (*p).(wireTransport); !done && *p != nil {
		*p = wireTransport{*p, r}
	}
}

func (r *run) start(idx, ncallers int, cfg config) {
	r.idx = idx
	r.cfg = cfg
	r.t0 = time.Now()
	r.base = (r.t0.Unix() - 2) << 32
	r.inRecv = map[string]bool{}
	r.sawWire = map[string]bool{}
	r.rxSeen = map[string]bool{}
	r.dir = filepath.Join(baseTmp, fmt.Sprintf("verif-c11-%d", os.Getpid()))
	if err := os.MkdirAll(r.dir, 0o700); err != nil {
		trouble("mkdir: %v", err)
	}
	r.sess = filepath.Join(r.dir, "session.json")
	for attempt := 0; ; attempt++ {
		if r.connect(idx, attempt) {
			break
		}
		if attempt > 20 {
			if strings.Contains(r.lastConnErr, "saving session") {
				// the exchange itself is fine every time; it is the store that refuses the new session
				panic(setupRefused{r.lastConnErr})
			}
			trouble("key exchange failed 20 times in a row (last error: %s)", r.lastConnErr)
		}
	}
	for t := 0; t < ncallers; t++ {
		r.addCaller()
	}
}

func (r *run) addCaller() *callerState {
	c := &callerState{name: "c" + strconv.Itoa(len(r.callers)), cmd: make(chan callSpec)}
	r.callers = append(r.callers, c)
	ready := make(chan struct{})
	go r.callerLoop(c, ready)
	<-ready
	return c
}

// connect sets up scheduler, server and client and brings the receive loop to its first "read".
// For a fresh session it runs the key exchange (the receive loop is released once per answer).
// Returns false if the key exchange has to be repeated (corner cases that are C06's subject).
func (r *run) connect(idx, attempt int) bool {
	r.sc = csched.New()
	r.rxSeen = map[string]bool{}
	r.sc.PassThrough = func(actor, point string) bool {
		if actor == "main" {
			return true
		}
		if point == "reconnecting" {
			return !r.holdReconn
		}
		return point == "prerecv" && strings.HasPrefix(actor, "c")
	}
	atomic.StoreInt32(&r.controlled, 1)
	mtproto.VerifYieldHook = r.hook
	os.Remove(r.sess)
	var cl *mtproto.MTProto
	var err error
	if r.cfg.fresh {
		fr, e := newFront(uint64(idx)*131 + uint64(attempt) + 1)
		if e != nil {
			trouble("front: %v", e)
		}
		r.front = fr
		r.store = &faultStore{inner: session.NewFromFile(r.sess), plan: r.cfg.store}
		cl, err = mtproto.NewMTProto(mtproto.Config{SessionStorage: r.store, ServerHost: fr.Addr(), PublicKey: &fr.priv.PublicKey})
	} else {
		srv, e := refserver.New(refserver.Options{Seed: uint64(idx) + 1})
		if e != nil {
			trouble("refserver: %v", e)
		}
		r.srv = srv
		if e := srv.WriteSession(r.sess); e != nil {
			trouble("writing session: %v", e)
		}
		r.store = &faultStore{inner: session.NewFromFile(r.sess), plan: r.cfg.store}
		cl, err = mtproto.NewMTProto(mtproto.Config{SessionStorage: r.store, ServerHost: srv.Addr()})
	}
	if err != nil {
		trouble("NewMTProto: %v", err)
	}
	r.cl = cl
	if r.cfg.warnCap >= 0 {
		r.warnings = make(chan error, r.cfg.warnCap)
		cl.Warnings = r.warnings
	}
	if r.cfg.warnCap == -2 {
		// an unbuffered channel with somebody reading it all the time: whether a warning gets through depends on
		// the reader being back in its receive; nothing of that is projected (the model sees no channel)
		live := make(chan error)
		cl.Warnings = live
		go func() {
			for range live {
				atomic.AddInt64(&r.liveWarnings, 1)
			}
		}()
	}
	decline := func(i interface{}) bool { atomic.AddInt64(&r.declined, 1); return false }
	accept := func(i interface{}) bool { atomic.AddInt64(&r.handled, 1); return true }
	switch r.cfg.handler {
	case 1:
		cl.AddCustomServerRequestHandler(accept)
	case 2:
		cl.AddCustomServerRequestHandler(decline)
	case 3:
		cl.AddCustomServerRequestHandler(decline)
		cl.AddCustomServerRequestHandler(accept)
	}
	connErr := make(chan error, 1)
	go func() {
		r.sc.Register("main")
		connErr <- cl.CreateConnection()
	}()
	// the receive loop is the first anonymous goroutine that reaches a yield point
	r.rx = r.awaitNewRx()
	if r.cfg.fresh {
		// three answers of the key exchange: the loop reads each in service mode and comes back to "read"
		for i := 0; i < 3; i++ {
			r.sc.Release(r.rx)
			ar, e := r.sc.Await(r.rx, watchdog)
			if e != nil || ar.Point != "read" {
				// the exchange failed on the client's or the front's side: start over
				r.abandon()
				return false
			}
		}
	}
	select {
	case e := <-connErr:
		if e != nil {
			if r.cfg.fresh {
				r.lastConnErr = e.Error()
				r.abandon()
				return false
			}
			trouble("CreateConnection: %v", e)
		}
	case <-time.After(watchdog):
		trouble("CreateConnection did not return")
	}
	if r.cfg.fresh {
		srv, e := r.front.waitKeyed(watchdog)
		if e != nil {
			r.abandon()
			return false
		}
		r.srv = srv
	}
	if err := r.srv.WaitConn(1, watchdog); err != nil {
		trouble("%v", err)
	}
	r.conns = 1
	r.store.arm()
	r.wrapTransport()
	_, salt, _, _ := r.cl.VerifSnapshot()
	r.initSalt = salt
	if r.front != nil {
		_, pf, pl := r.front.counts()
		r.plainBase = pf + pl
	}
	return true
}

func (r *run) abandon() {
	atomic.StoreInt32(&r.controlled, 0)
	r.sc.FreeRun()
	if r.front != nil {
		r.front.Close()
		r.front = nil
	}
	r.srv = nil
}

// awaitNewRx waits for a goroutine nobody named to reach "read": the receive loop of a new connection.
func (r *run) awaitNewRx() string {
	deadline := time.Now().Add(watchdog)
	for {
		for _, n := range r.sc.Actors() {
			if strings.HasPrefix(n, "g") && !r.rxSeen[n] {
				r.rxSeen[n] = true
				ar, err := r.sc.Await(n, watchdog)
				if err != nil {
					st := ""
					if e, ok := err.(*csched.ErrStuck); ok {
						st = e.Stack
					}
					panic(stuck{what: n, stack: st})
				}
				if ar.Point != "read" {
					trouble("new goroutine %s first parked at %q", n, ar.Point)
				}
				return n
			}
		}
		if time.Now().After(deadline) {
			buf := make([]byte, 1<<18)
			panic(stuck{what: "new-receive-loop", stack: string(buf[:runtimeStack(buf)])})
		}
		time.Sleep(100 * time.Microsecond)
	}
}

func (r *run) callerLoop(c *callerState, ready chan struct{}) {
	r.sc.Register(c.name)
	close(ready)
	for sp := range c.cmd {
		req := &objects.PingParams{PingID: sp.token}
		var v interface{}
		var err error
		if sp.hinted {
			var ht reflect.Type
			if sp.kind == "vecobj" {
				ht = reflect.TypeOf([]*objects.FutureSalt{})
			} else {
				ht = reflect.TypeOf([]int32{})
			}
			v, err = r.cl.MakeRequestWithHintToDecoder(req, ht)
		} else {
			v, err = r.cl.MakeRequest(req)
		}
		r.sc.Done(c.name, showResult(sp.token, v, err))
	}
}

func showResult(own int64, v interface{}, err error) string {
	if err != nil {
		if e, ok := err.(*mtproto.ErrResponseCode); ok {
			if refserver.IsErrOf(own, e.Code, e.Message) {
				return "err:" + strconv.FormatInt(own, 10)
			}
			return "err:" + strings.TrimPrefix(e.Message, "VERIF_")
		}
		return "goerr:" + reflect.TypeOf(err).String()
	}
	switch x := v.(type) {
	case *objects.Pong:
		return "obj:" + strconv.FormatInt(x.MsgID, 10)
	case bool:
		if x {
			return "bool:1"
		}
		return "bool:0"
	case []int32:
		if len(x) == 0 {
			return "vecbare:empty"
		}
		return "vecbare:" + strconv.Itoa(int(x[0]))
	case []*objects.FutureSalt:
		if len(x) == 0 {
			return "vecobj:empty"
		}
		return "vecobj:" + strconv.Itoa(int(x[0].ValidSince))
	case nil:
		return "nil"
	default:
		return "other:" + reflect.TypeOf(v).String()
	}
}

func expectedResult(sp callSpec) string {
	switch sp.kind {
	case "bool":
		return "bool:" + strconv.FormatInt(sp.token&1, 10)
	default:
		return sp.kind + ":" + strconv.FormatInt(sp.token, 10)
	}
}

func resultBody(sp callSpec) []byte {
	p := sp.token
	switch sp.kind {
	case "obj":
		return refserver.Object(&objects.Pong{MsgID: p, PingID: ^p})
	case "bool":
		return refserver.Bool(p&1 == 1)
	case "vecbare":
		v := []int32{int32(p), int32(p + 1), int32(p + 2)}
		return refserver.VectorInt32(v[:1+int(p%3)])
	case "vecobj":
		v := []tl.Object{&objects.FutureSalt{ValidSince: int32(p), ValidUntil: int32(p + 1), Salt: p * 7},
			&objects.FutureSalt{ValidSince: int32(p + 1), ValidUntil: int32(p + 2), Salt: p * 11}}
		return refserver.VectorObjects(v[:1+int(p%2)])
	case "err":
		return refserver.RpcError(refserver.ErrOf(p))
	}
	trouble("unknown result kind %q", sp.kind)
	return nil
}

func (r *run) await(actor string) csched.Arrival {
	ar, err := r.sc.Await(actor, watchdog)
	if err != nil {
		st := ""
		if e, ok := err.(*csched.ErrStuck); ok {
			st = e.Stack
		}
		panic(stuck{what: actor, stack: st})
	}
	return ar
}

func (r *run) norm(id int64) string { return strconv.FormatInt(id-r.base, 10) }

func (r *run) warnLen() int {
	if r.warnings == nil {
		return 0
	}
	return len(r.warnings)
}

// storedSalt reads the salt in the session file (what SaveSession wrote last).
func (r *run) storedSalt() string {
	calls, last, has := r.store.state()
	n := calls
	if r.cfg.fresh {
		n++ // the key exchange of the set-up stored once
	}
	if r.cfg.store != "" && has {
		// a storage that fails: what the client last ASKED to be stored (the model's store is the sequence of SaveSession calls)
		return r.showSalt(last) + "#" + strconv.Itoa(n)
	}
	s, err := session.NewFromFile(r.sess).Load()
	if err != nil || s == nil {
		return "none#" + strconv.Itoa(n)
	}
	return r.showSalt(s.Salt) + "#" + strconv.Itoa(n)
}

func (r *run) rxState() string {
	return fmt.Sprintf("q=%d h=%d st=%s", r.warnLen(), atomic.LoadInt64(&r.handled), r.storedSalt())
}

// enabled reports whether releasing the actor from where it is parked cannot block forever, by Go
// semantics alone (plus: no write is started while the server has closed the connection and the
// client has not yet noticed - the outcome of such a write depends on the kernel, not on the client).
func (r *run) enabled(actor string) bool {
	p := r.sc.Parked(actor)
	if p == nil {
		return false
	}
	isRx := actor == r.rx
	switch p.Point {
	case "prelock":
		return r.lock == "" && !r.closePending
	case "idgen":
		return !r.closePending
	case "written", "dispatch", "reconnect", "wire":
		return true
	case "prerecv":
		return isRx
	case "read":
		return isRx && (r.srv.Sent() > r.reads || r.closePending)
	case "deliver", "notify":
		o := r.ownerOf(p.ID)
		return o != nil && r.inRecv[o.name]
	}
	return false
}

// orphanSend: the receive loop stands before a channel send for an id no live call owns (nobody will
// ever receive): releasing it is how a stall is observed (watchdog + goroutine dump).
func (r *run) orphanSend() bool {
	p := r.sc.Parked(r.rx)
	return p != nil && (p.Point == "deliver" || p.Point == "notify") && r.ownerOf(p.ID) == nil
}

func (r *run) ownerOf(id int64) *callerState {
	for _, c := range r.callers {
		if c.active != nil && !c.active.done && c.active.msgID == id {
			return c
		}
	}
	return nil
}

func (r *run) onArrival(actor string, ar csched.Arrival) []string {
	items := []string{}
	c := r.actorCaller(actor)
	show := actor
	if actor == r.rx {
		show = "rx"
	}
	if ar.Point == "wire" {
		items = append(items, show+"@written") // the model's "written, not yet returned"
	} else {
		items = append(items, show+"@"+ar.Point)
	}
	switch ar.Point {
	case "idgen", "prelock":
		delete(r.inRecv, actor)
		if c != nil && c.active != nil && ar.ID != 0 {
			c.active.msgID = ar.ID
		}
	case "written", "wire":
		if ar.Point == "written" && r.cfg.wire && r.sawWire[actor] {
			delete(r.sawWire, actor) // the frame was observed at "wire"
			break
		}
		if ar.Point == "wire" {
			r.sawWire[actor] = true
		}
		frames, err := r.srv.WaitFrames(r.nframes+1, watchdog)
		if err != nil {
			trouble("frame written by %s did not reach the server: %v", actor, err)
		}
		f := frames[r.nframes]
		r.nframes++
		if f.OpenErr != "" {
			items = append(items, "W:unopenable:"+f.OpenErr)
			break
		}
		if f.Plain {
			items = append(items, "W:plain")
			break
		}
		kind := "req"
		extra := ""
		if ids := refserver.AckedIDs(f); ids != nil {
			kind = "ack"
			l := []string{}
			for _, id := range ids {
				l = append(l, strconv.FormatInt(id, 10))
			}
			extra = ":ack=" + strings.Join(l, ",")
		}
		inc := "0"
		if r.nframes == 1 || f.MsgID > r.lastID {
			inc = "1"
		}
		r.lastID = f.MsgID
		items = append(items, fmt.Sprintf("W:%s:%d:%d:%s:s=%s%s", kind, f.SeqNo, f.MsgID&3, inc, r.showSalt(f.Salt), extra))
		if c != nil && c.active != nil {
			c.active.frame = f.Index
			c.active.msgID = f.MsgID
			c.active.ids = append(c.active.ids, f.MsgID)
			c.active.answers = 0
		}
	case "prerecv":
		if r.lock == actor {
			r.lock = ""
		}
		if c != nil {
			r.inRecv[actor] = true
		}
	case "done":
		delete(r.inRecv, actor)
		if r.lock == actor {
			r.lock = ""
		}
		if c != nil && c.active != nil {
			c.active.done = true
			c.active.got = ar.Val.(string)
			items = append(items, "ret:"+c.active.got)
			c.active = nil
		}
	}
	return items
}

func (r *run) record(label, obs string) {
	if r.silent {
		return
	}
	r.out.line("A", strconv.Itoa(r.idx), strconv.Itoa(r.nact), label, obs)
	r.nact++
}

func (r *run) doCall(t int, sp callSpec) {
	c := r.callers[t]
	cs := &callState{spec: sp, k: len(c.calls), frame: -1}
	c.calls = append(c.calls, cs)
	c.active = cs
	c.cmd <- sp
	ar := r.await(c.name)
	items := r.onArrival(c.name, ar)
	r.record(fmt.Sprintf("call %d %s", t, b01(sp.hinted)), strings.Join(items, " "))
}

func (r *run) clk(id int64) string {
	d := id - r.base
	if d%4 != 0 {
		return "x" + strconv.FormatInt(d, 10)
	}
	return strconv.FormatInt(d/4, 10)
}

// note writes what the receive loop is about to work on, so that the supervisor can name the message
// during which the process died.
func (r *run) note(class string) {
	if r.silent {
		return
	}
	r.lastClass = class
	r.out.line("P", strconv.Itoa(r.idx), class)
}

func (r *run) classOf(sid int64) string {
	for i := len(r.sent) - 1; i >= 0; i-- {
		if r.sent[i].sid == sid {
			return r.sent[i].class
		}
	}
	return "unknown"
}

func (r *run) topClass(n int) string {
	k := 0
	for _, m := range r.sent {
		if strings.HasPrefix(m.class, "item:") {
			continue
		}
		if k == n {
			return m.class
		}
		k++
	}
	return "unknown"
}

// doStep releases one enabled actor (and its rendezvous partner) and waits for the arrivals.
func (r *run) doStep(actor string) {
	p := r.sc.Parked(actor)
	isRx := actor == r.rx
	show := actor
	if isRx {
		show = "rx"
	}
	var items []string
	clk := "0"
	switch p.Point {
	case "deliver", "notify":
		r.note(p.Point + ":" + r.msgClass)
		orphan := r.ownerOf(p.ID) == nil
		r.sc.Release(actor)
		var a1 csched.Arrival
		if orphan {
			// nobody can take this send: the stall is expected, a short wait is enough to see it
			var err error
			a1, err = r.sc.Await(actor, stallWait)
			if err != nil {
				st := ""
				if e, ok := err.(*csched.ErrStuck); ok {
					st = e.Stack
				}
				panic(stuck{what: actor, stack: st})
			}
		} else {
			a1 = r.await(actor)
		}
		items = append(items, r.onArrival(actor, a1)...)
		var waiting []string
		for _, c := range r.callers {
			if r.inRecv[c.name] {
				waiting = append(waiting, c.name)
			}
		}
		a2, err := r.sc.AwaitAny(waiting, watchdog)
		if err != nil {
			st := ""
			if e, ok := err.(*csched.ErrStuck); ok {
				st = e.Stack
			}
			panic(stuck{what: "receiver-of-" + actor, stack: st})
		}
		items = append(items, r.onArrival(a2.Actor, a2)...)
	case "reconnect":
		r.note("reconnect")
		r.sc.Release(actor)
		// Disconnect, the pass-through point "reconnecting", CreateConnection: a new reading goroutine
		nrx := r.awaitNewRx()
		r.rx = nrx
		r.conns++
		if err := r.srv.WaitConn(r.conns, watchdog); err != nil {
			trouble("%v", err)
		}
		r.closePending = false
		r.wrapTransport()
		items = append(items, "rx@read", fmt.Sprintf("gen=%d", r.conns), "plain="+strconv.Itoa(r.plainSeen()))
	default:
		if p.Point == "prelock" {
			r.lock = actor
		}
		if isRx && p.Point == "read" {
			if r.srv.Sent() > r.reads {
				r.msgClass = r.topClass(r.reads)
				r.note("read:" + r.msgClass)
				r.reads++
			} else {
				r.msgClass = "eof"
				r.note("read:eof")
			}
		}
		if isRx && p.Point == "dispatch" {
			r.msgClass = r.classOf(p.ID)
			r.note("dispatch:" + r.msgClass)
		}
		r.sc.Release(actor)
		ar := r.await(actor)
		if ar.Point == "idgen" {
			clk = r.clk(ar.ID)
		}
		items = r.onArrival(actor, ar)
		if p.Point == "wire" {
			// WriteMsg returns, the sender finishes its block: no shared state changes, the model's actor stays
			r.nwire++
			r.record("stutter "+show, strings.Join(items, " "))
			return
		}
	}
	if isRx {
		items = append(items, r.rxState())
	}
	r.record("step "+show+" "+clk, strings.Join(items, " "))
}

var probeTimeout = 40 * time.Millisecond

// earlyOwner: the receive loop is parked right before a channel send (the hand-over of a result, "deliver", or of the
// retry marker after bad_server_salt, "notify") and the owner of that channel has written its request but has not
// returned from sendPacket yet (parked at "written"): it does not listen. Returns that owner, nil otherwise.
func (r *run) earlyOwner() *callerState {
	p := r.sc.Parked(r.rx)
	if p == nil || (p.Point != "deliver" && p.Point != "notify") {
		return nil
	}
	o := r.ownerOf(p.ID)
	if o == nil || r.inRecv[o.name] {
		return nil
	}
	if q := r.sc.Parked(o.name); q == nil || q.Point != "written" {
		return nil
	}
	return o
}

// doEarly lets the receive loop walk into its send BEFORE the owner listens (Client/Rendezvous.v: the commit).
// The channel is unbuffered and the owner its only reader: the loop has to wait there (no arrival within the probe
// time-out) until the owner has returned from sendPacket and receives; then both go on as if the owner had been
// first. Recorded as `commit rx` + the two actions of the canonical order (step owner, step rx). A loop that comes
// back without the owner has handed the value to nobody.
func (r *run) doEarly() {
	o := r.earlyOwner()
	p := r.sc.Parked(r.rx)
	id, point := p.ID, p.Point
	r.note(point + ":" + r.msgClass)
	r.nearly++
	r.sc.Release(r.rx)
	if ar, ok := r.sc.TryAwait(r.rx, probeTimeout); ok {
		text := fmt.Sprintf("the receive loop went on from its channel send (%s for request %s) to '%s' while caller %s had not returned from "+
			"sendPacket (nobody was receiving on the response channel): the value is lost or went elsewhere", point, r.norm(id), ar.Point, o.name)
		r.viol("C09", "live:handed-over-while-owner-not-listening:"+point, text)
		r.viol("C11", "salt-rotation:handed-over-while-owner-not-listening:"+point, text)
		r.viol("C16", "handed-over-while-owner-not-listening:"+point, text)
		r.aborted = true
		return
	}
	r.record("commit rx", "committed")
	r.sc.Release(o.name)
	a0 := r.await(o.name)
	r.record("step "+o.name+" 0", strings.Join(r.onArrival(o.name, a0), " "))
	var items []string
	a1 := r.await(r.rx)
	items = append(items, r.onArrival(r.rx, a1)...)
	var waiting []string
	for _, c := range r.callers {
		if r.inRecv[c.name] {
			waiting = append(waiting, c.name)
		}
	}
	a2, err := r.sc.AwaitAny(waiting, watchdog)
	if err != nil {
		st := ""
		if e, ok := err.(*csched.ErrStuck); ok {
			st = e.Stack
		}
		panic(stuck{what: "receiver-of-" + r.rx, stack: st})
	}
	items = append(items, r.onArrival(a2.Actor, a2)...)
	items = append(items, r.rxState())
	r.record("step rx 0", strings.Join(items, " "))
}

// plainSeen: plain (unencrypted) frames the servers have seen since the set-up.
func (r *run) plainSeen() int {
	n := 0
	for _, f := range r.srv.Frames() {
		if f.Plain {
			n++
		}
	}
	if r.front != nil {
		_, pf, pl := r.front.counts()
		n += pf + pl - r.plainBase
	}
	return n
}

func (r *run) doClose() {
	r.srv.CloseConn()
	r.closePending = true
	r.record("close", "ok")
}

func (r *run) canClose() bool {
	if r.closePending {
		return false
	}
	p := r.sc.Parked(r.rx)
	if p == nil || p.Point != "read" || r.srv.Sent() > r.reads {
		return false
	}
	for _, c := range r.callers {
		if q := r.sc.Parked(c.name); q != nil && q.Point == "idgen" {
			return false
		}
	}
	return true
}

func (r *run) doDrain() {
	select {
	case <-r.warnings:
	default:
		trouble("drain on an empty warning channel")
	}
	r.record("drain", fmt.Sprintf("q=%d", r.warnLen()))
}

// ---- server messages ------------------------------------------------------------------

type bodySpec struct {
	op    string // res err cont gz pong ack newsess upd badsalt badmsg garbage svc
	ref   string // @t.k | @t.k.j | literal id
	gz    bool
	kind  string
	tok   int64
	items []itemSpec
	inner *bodySpec
	salt  int64
	n     int // svc: index into serviceObjects; garbage: variant
	crc   uint32 // reg / enum: constructor id
	gzbad string // "", or how the gzip stream of this gz / gz-packed result is damaged: crc | isize | deflate
}

type itemSpec struct {
	sid  int64
	seq  int32
	body *bodySpec
}

// resolve: @t.k = latest msg id of call k of caller t; @t.k.j = id of its j-th attempt; otherwise a
// literal id relative to the run's base.
func (r *run) resolve(ref string) (int64, *callState, bool) {
	if strings.HasPrefix(ref, "@") {
		p := strings.Split(ref[1:], ".")
		t, _ := strconv.Atoi(p[0])
		k, _ := strconv.Atoi(p[1])
		if t >= len(r.callers) || k >= len(r.callers[t].calls) {
			trouble("reference %s to a call that was not made", ref)
		}
		cs := r.callers[t].calls[k]
		if len(p) > 2 {
			j, _ := strconv.Atoi(p[2])
			if j >= len(cs.ids) {
				trouble("reference %s to an attempt that was not made", ref)
			}
			return cs.ids[j], cs, cs.ids[j] == cs.msgID
		}
		return cs.msgID, cs, true
	}
	if strings.HasPrefix(ref, "ack.") {
		// the msg id of the j-th msgs_ack the client has written (a server rejects acks sent under an old salt too)
		j, _ := strconv.Atoi(ref[4:])
		for _, f := range r.srv.Frames() {
			if refserver.AckedIDs(f) != nil {
				if j == 0 {
					return f.MsgID, nil, false
				}
				j--
			}
		}
		trouble("reference %s to an acknowledgement that was not written", ref)
	}
	id, _ := strconv.ParseInt(ref, 10, 64)
	return id + r.base, nil, false
}

func (r *run) acksWritten() int {
	n := 0
	for _, f := range r.srv.Frames() {
		if refserver.AckedIDs(f) != nil {
			n++
		}
	}
	return n
}

func (r *run) wasRejected(id int64) bool {
	for _, rj := range r.rejections {
		if rj.id == id {
			return true
		}
	}
	return false
}

// serviceObjects: every MTProto service constructor the client has no case for, and a few API
// objects as they arrive as updates. All end in the default branch of processResponse.
var serviceObjects = []tl.Object{
	&objects.FutureSalts{ReqMsgID: 4, Now: 1},
	&objects.FutureSalt{ValidSince: 1, ValidUntil: 2, Salt: 3},
	&objects.MsgsStateReq{MsgIDs: []int64{4}},
	&objects.MsgsStateInfo{ReqMsgID: 4, Info: []byte{1}},
	&objects.MsgsAllInfo{MsgIDs: []int64{4}, Info: []byte{1}},
	&objects.MsgsDetailedInfo{MsgID: 4, AnswerMsgID: 8, Bytes: 16, Status: 0},
	&objects.MsgsNewDetailedInfo{AnswerMsgID: 8, Bytes: 16, Status: 0},
	&objects.MsgResendReq{MsgIDs: []int64{4}},
	&objects.RpcAnswerUnknown{},
	&objects.RpcAnswerDroppedRunning{},
	&objects.RpcAnswerDropped{MsgID: 4, SewNo: 1, Bytes: 8},
	&objects.RpcError{ErrorCode: 400, ErrorMessage: "VERIF_TOPLEVEL"},
	// constructors of the key exchange arriving in a keyed session
	&objects.ResPQ{Nonce: i128(1), ServerNonce: i128(2), Pq: []byte{1, 2, 3}, Fingerprints: []int64{5}},
	&objects.ServerDHParamsFail{Nonce: i128(1), ServerNonce: i128(2), NewNonceHash: i128(3)},
	&objects.ServerDHParamsOk{Nonce: i128(1), ServerNonce: i128(2), EncryptedAnswer: []byte{1, 2, 3, 4}},
	&objects.DHGenOk{Nonce: i128(1), ServerNonce: i128(2), NewNonceHash1: i128(3)},
	&objects.DHGenRetry{Nonce: i128(1), ServerNonce: i128(2), NewNonceHash2: i128(3)},
	&objects.DHGenFail{Nonce: i128(1), ServerNonce: i128(2), NewNonceHash3: i128(3)},
	// client-to-server constructors echoed by the server
	&objects.PingParams{PingID: 9},
	&objects.ReqPQParams{Nonce: i128(1)},
	// API objects as they arrive as updates
	&telegram.UpdatesTooLong{},
	&telegram.UpdateShort{Update: &telegram.UpdateConfig{}, Date: 1},
	&telegram.UpdateShortMessage{ID: 1, UserID: 2, Message: "m", Pts: 1, PtsCount: 1, Date: 1},
	&telegram.UpdatesObj{Updates: []telegram.Update{&telegram.UpdateConfig{}}, Users: []telegram.User{}, Chats: []telegram.Chat{}, Date: 1, Seq: 1},
	&telegram.UpdateConfig{},
}

func i128(v int64) *tl.Int128 { return &tl.Int128{Int: big.NewInt(v)} }

type svcBody struct {
	body    []byte
	name    string
	decodes bool
}

var svcBodies []svcBody

// serviceBody marshals the n-th service object with the repository's encoder and asks the repository's
// decoder whether it accepts the bytes: what it refuses is, for the client, an undecodable body.
func serviceBody(n int) svcBody {
	if svcBodies == nil {
		for _, o := range serviceObjects {
			sb := svcBody{name: strings.TrimPrefix(reflect.TypeOf(o).String(), "*")}
			func() {
				defer func() {
					if x := recover(); x != nil {
						sb.body = nil
					}
				}()
				b, err := tl.Marshal(o)
				if err == nil {
					sb.body = b
				}
			}()
			if sb.body == nil {
				continue
			}
			func() {
				defer func() { _ = recover() }()
				_, err := tl.DecodeUnknownObject(sb.body)
				sb.decodes = err == nil
			}()
			svcBodies = append(svcBodies, sb)
		}
	}
	return svcBodies[n%len(svcBodies)]
}

// badGzip is gzip_packed around body whose stream has a valid header and complete data but is damaged:
//
//	crc      the CRC-32 trailer has a flipped bit   (gzip.ErrChecksum after all data was delivered)
//	isize    the ISIZE trailer has a flipped bit    (gzip.ErrChecksum as well)
//	deflate  a byte in the middle of the deflate data is wrong: two stored blocks, the length check of the
//	         second one fails (flate.CorruptInputError after the first half of the data)
//
// The library ignores the error of gzip.Reader.Read and stops at n <= 0, so for it the first two ARE the packed
// object, and the third is the first half of it - an undecodable body. What a standard gzip reader makes of the
// stream is checked here with compress/gzip (not with the repository's code).
func badGzip(body []byte, variant string) []byte {
	var buf bytes.Buffer
	half := len(body) / 2
	if half < 1 {
		half = 1
	}
	switch variant {
	case "crc", "isize":
		w := gzip.NewWriter(&buf)
		_, _ = w.Write(body)
		_ = w.Close()
	case "deflate":
		w, _ := gzip.NewWriterLevel(&buf, gzip.NoCompression)
		_, _ = w.Write(body[:half])
		_ = w.Flush()
		_, _ = w.Write(body[half:])
		_ = w.Close()
	default:
		trouble("unknown gzip damage %q", variant)
	}
	gz := buf.Bytes()
	switch variant {
	case "crc":
		gz[len(gz)-8] ^= 0x10
	case "isize":
		gz[len(gz)-4] ^= 0x01
	case "deflate":
		// header(10) | stored block: 1 + LEN(2) + NLEN(2) + half bytes | sync marker 00 00 00 ff ff | stored block ...
		off := 10 + 5 + half + 5
		if off+4 >= len(gz) {
			trouble("unexpected layout of the stored gzip stream")
		}
		gz[off+3] ^= 0x55 // NLEN of the second data block
	}
	// what a standard reader sees
	zr, err := gzip.NewReader(bytes.NewReader(gz))
	if err != nil {
		trouble("damaged gzip: header refused: %v", err)
	}
	out, err := io.ReadAll(zr)
	switch variant {
	case "crc", "isize":
		if err != gzip.ErrChecksum || !bytes.Equal(out, body) {
			trouble("damaged gzip (%s): want all data + checksum error, got %d bytes, %v", variant, len(out), err)
		}
	case "deflate":
		if _, ok := err.(flate.CorruptInputError); !ok || !bytes.Equal(out, body[:half]) {
			trouble("damaged gzip (deflate): want first half + corrupt input, got %d bytes, %v", len(out), err)
		}
	}
	b := make([]byte, 4)
	binary.LittleEndian.PutUint32(b, refserver.CrcGzipPacked)
	return append(b, refserver.TLBytes(gz)...)
}

func (r *run) gzip(body []byte, damage string) []byte {
	if damage == "" {
		return refserver.Gzip(body)
	}
	return badGzip(body, damage)
}

const garbageVariants = 12

// garbage bodies: nothing tl.DecodeUnknownObject accepts
func garbageBody(n int) ([]byte, string) {
	packed := func(inflated []byte) []byte {
		return append(refserver.Gzip(nil)[:4], refserver.TLBytes(refserver.GzipStream(inflated, n/garbageVariants%refserver.GzipVariants, 4))...)
	}
	res := refserver.RpcResult(0x5e0b700a00000044, refserver.Object(&objects.Pong{MsgID: 1, PingID: 2}))
	switch n % garbageVariants {
	case 5: // gzip_packed whose content is an rpc_result cut inside req_msg_id
		return packed(res[:4+(n/garbageVariants)%8]), "packed-result-cut-in-id"
	case 6: // gzip_packed whose content is an rpc_result without a result
		return packed(res[:12]), "packed-result-without-result"
	case 7: // gzip_packed with an empty stream inside
		return packed(nil), "packed-nothing"
	case 8: // gzip_packed whose byte string is not a gzip stream
		return append(refserver.Gzip(nil)[:4], refserver.TLBytes([]byte("certainly not a gzip stream"))...), "packed-not-gzip"
	case 9: // rpc_result cut inside req_msg_id
		return res[:4+(n/garbageVariants)%8], "result-cut-in-id"
	case 10: // gzip_packed cut inside the header of its byte string
		return append(refserver.Gzip(nil)[:4], 0xfe, 0x10), "packed-cut-in-length"
	case 11: // gzip_packed whose content is a cut gzip_packed
		return packed(packed(res)[:9]), "packed-packed-cut"
	}
	switch n % garbageVariants {
	case 0: // a constructor id that is not registered
		return []byte{0xef, 0xbe, 0xad, 0xde, 1, 2, 3, 4}, "unregistered-constructor"
	case 1: // new_session_created cut after its first field
		b := refserver.NewSessionCreated(4, 77, 5)
		return b[:12], "truncated-body"
	case 2: // rpc_result whose result is cut
		b := refserver.RpcResult(12345, refserver.Object(&objects.Pong{MsgID: 1, PingID: 2}))
		return b[:len(b)-6], "truncated-result"
	case 3: // fewer than four bytes
		return []byte{1, 2}, "short-body"
	default: // msg_container announcing more messages than it carries
		b := refserver.Container([]refserver.Msg{{MsgID: 5, SeqNo: 0, Body: refserver.Pong(4, 5)}})
		binary.LittleEndian.PutUint32(b[4:], 3)
		return b, "container-count-too-high"
	}
}

// build returns the TL bytes, the model-facing text, the class of the message and whether processing
// it ends in an error.
func (r *run) build(b *bodySpec) ([]byte, string, string, bool) {
	switch b.op {
	case "res", "err":
		id, cs, latest := r.resolve(b.ref)
		sp := callSpec{kind: b.kind, token: b.tok}
		if b.op == "err" {
			sp.kind = "err"
		}
		body := resultBody(sp)
		if b.gz {
			body = r.gzip(body, b.gzbad)
		}
		if b.gz && b.gzbad == "deflate" {
			// half a result: the whole rpc_result does not decode, nobody is answered
			return refserver.RpcResult(id, body), "garbage", "rpc_result-gzip-corrupt-deflate", true
		}
		class := "rpc_result"
		failing := false
		switch {
		case cs == nil:
			class = "rpc_result-unknown-id"
			failing = true
		case !latest:
			class = "rpc_result-rejected-id"
			failing = true
		case cs.done || cs.answers > 0:
			class = "rpc_result-already-answered"
			failing = true
		case r.wasRejected(id):
			class = "rpc_result-rejected-id"
			failing = true
		}
		if cs != nil && latest {
			cs.answers++
		}
		if (b.kind == "vecbare" || b.kind == "vecobj") && cs != nil && !cs.spec.hinted {
			class = "rpc_result-vector-without-hints"
			failing = true
		}
		if b.op == "err" {
			return refserver.RpcResult(id, body), fmt.Sprintf("err %s %s %d", r.norm(id), b01(b.gz), b.tok), class, failing
		}
		return refserver.RpcResult(id, body), fmt.Sprintf("res %s %s %s %d", r.norm(id), b01(b.gz), b.kind, b.tok), class, failing
	case "gz":
		if b.gzbad == "deflate" {
			// what is inside is never looked at: build it on a copy of the bookkeeping-free path
			inner := r.buildQuiet(b.inner)
			return badGzip(inner, "deflate"), "garbage", "gzip-corrupt-deflate", true
		}
		inner, txt, class, failing := r.build(b.inner)
		if b.gzbad != "" {
			class = "gzip-bad-" + b.gzbad + ":" + class
		}
		return r.gzip(inner, b.gzbad), "gz " + txt, class, failing
	case "cont":
		var msgs []refserver.Msg
		txt := "cont " + strconv.Itoa(len(b.items))
		anyFail := false
		first := len(r.sent)
		for _, it := range b.items {
			ib, it2, class, failing := r.build(it.body)
			msgs = append(msgs, refserver.Msg{MsgID: it.sid, SeqNo: it.seq, Body: ib})
			r.sent = append(r.sent, sentMsg{sid: it.sid, seq: it.seq, class: "item:" + class, atFrames: r.nframes, failing: failing, inFailed: anyFail})
			anyFail = anyFail || failing
			txt += fmt.Sprintf(" %d %d %s", it.sid, it.seq, it2)
		}
		_ = first
		return refserver.Container(msgs), txt, "msg_container", anyFail
	case "pong":
		return refserver.Pong(4, 5), "pong", "pong", false
	case "ack":
		return refserver.MsgsAck(4), "ack", "msgs_ack", false
	case "newsess":
		r.saltsSent = append(r.saltsSent, b.salt)
		return refserver.NewSessionCreated(4, 77, b.salt), "newsess " + strconv.FormatInt(b.salt, 10), "new_session_created", false
	case "upd":
		return refserver.FutureSalts(4, 1), "upd", "update", false
	case "svc":
		sb := serviceBody(b.n)
		if !sb.decodes {
			return sb.body, "garbage", "undecodable:" + sb.name, true
		}
		return sb.body, "upd", "update:" + sb.name, false
	case "reg", "enum":
		rb := regBuild(b.op, b.crc, b.n)
		if !rb.decodes {
			return rb.body, "garbage", "undecodable-object:" + rb.name, true
		}
		return rb.body, "upd", "object:" + rb.name, false
	case "badsalt":
		id, _, _ := r.resolve(b.ref)
		r.saltsSent = append(r.saltsSent, b.salt)
		r.rejections = append(r.rejections, rejection{id: id, salt: b.salt, atFrames: r.nframes, order: len(r.saltsSent) - 1})
		return refserver.BadServerSalt(id, 1, 48, b.salt), fmt.Sprintf("badsalt %s %d", r.norm(id), b.salt), "bad_server_salt", false
	case "badmsg":
		id, _, _ := r.resolve(b.ref)
		// error_code and bad_msg_seqno are signed 32-bit fields the server fills in: the documented codes, codes nobody
		// documented, zero, negative ones, the corners of int32; chosen by the id and the number of messages sent so far
		codes := []int32{32, 16, 17, 18, 19, 20, 33, 34, 35, 48, 64, 0, -1, 1, 65, 255, 256, 272, 2147483647, -2147483648, -404}
		seqs := []int32{1, 0, 2, 3, -1, 2147483647, -2147483648}
		h := int(uint64(id)>>2) + len(r.sent)
		code := codes[h%len(codes)]
		return refserver.BadMsgNotification(id, seqs[(h/len(codes))%len(seqs)], code), "badmsg " + r.norm(id), "bad_msg_notification:" + strconv.Itoa(int(code)), true
	case "garbage":
		body, class := garbageBody(b.n)
		return body, "garbage", class, true
	}
	trouble("unknown body op %q", b.op)
	return nil, "", "", false
}

// buildQuiet renders a body that the client will never get to see (it sits behind a stream that does not
// unpack): none of the harness's bookkeeping (answers, rejections, salts, items) may change.
func (r *run) buildQuiet(b *bodySpec) []byte {
	nsent, nrej, nsalt := len(r.sent), len(r.rejections), len(r.saltsSent)
	type snap struct {
		cs *callState
		a  int
	}
	var snaps []snap
	for _, c := range r.callers {
		for _, cs := range c.calls {
			snaps = append(snaps, snap{cs, cs.answers})
		}
	}
	body, _, _, _ := r.build(b)
	r.sent, r.rejections, r.saltsSent = r.sent[:nsent], r.rejections[:nrej], r.saltsSent[:nsalt]
	for _, sn := range snaps {
		sn.cs.answers = sn.a
	}
	return body
}

func (r *run) doSrv(sid int64, seq int32, b *bodySpec) {
	at := len(r.sent)
	body, txt, class, failing := r.build(b)
	// the enclosing message comes first in r.sent order for classOf lookups of equal sids: append after items
	r.sent = append(r.sent, sentMsg{sid: sid, seq: seq, class: class, atFrames: r.nframes, failing: failing, inFailed: failing})
	_ = at
	if err := r.srv.Send(refserver.Msg{MsgID: sid, SeqNo: seq, Body: body}); err != nil {
		trouble("server send: %v", err)
	}
	r.record(fmt.Sprintf("srv %d %d %s", sid, seq, txt), "ok")
}

// doRaw sends something the transport itself refuses: the model sees a frame with msg id 0.
func (r *run) doRaw(variant string) {
	var pkt []byte
	switch variant {
	case "errcode": // 4-byte transport error code -404
		pkt = []byte{0x6c, 0xfe, 0xff, 0xff}
	case "badparity": // a well-sealed message whose msg_id is even
		p, err := r.srv.Seal(refserver.Msg{MsgID: r.srv.NextMsgID(true) + 1, SeqNo: 0, Body: refserver.Pong(4, 5)})
		if err != nil {
			trouble("seal: %v", err)
		}
		pkt = p
	case "truncated": // a sealed message cut in the middle of the ciphertext
		p, err := r.srv.Seal(refserver.Msg{MsgID: r.srv.NextMsgID(true), SeqNo: 0, Body: refserver.Pong(4, 5)})
		if err != nil {
			trouble("seal: %v", err)
		}
		pkt = p[:len(p)-16-7]
	case "corrupt": // a sealed message with a flipped ciphertext byte (msg_key no longer matches)
		p, err := r.srv.Seal(refserver.Msg{MsgID: r.srv.NextMsgID(true), SeqNo: 0, Body: refserver.Pong(4, 5)})
		if err != nil {
			trouble("seal: %v", err)
		}
		p[len(p)-3] ^= 0x40
		pkt = p
	case "wrongkey": // unknown auth_key_id
		p, err := r.srv.Seal(refserver.Msg{MsgID: r.srv.NextMsgID(true), SeqNo: 0, Body: refserver.Pong(4, 5)})
		if err != nil {
			trouble("seal: %v", err)
		}
		p[0] ^= 0xff
		pkt = p
	default:
		trouble("unknown raw variant %q", variant)
	}
	r.sent = append(r.sent, sentMsg{sid: 0, seq: 0, class: "transport:" + variant, atFrames: r.nframes, failing: true, inFailed: true})
	if err := r.srv.SendPacket(pkt); err != nil {
		trouble("server send: %v", err)
	}
	r.record("srv 0 0 garbage", "ok")
}

func (b *bodySpec) script() string {
	if b.gzbad != "" {
		c := *b
		c.gzbad = ""
		return "badgz " + b.gzbad + " " + c.script()
	}
	g := b01(b.gz)
	switch b.op {
	case "res":
		return fmt.Sprintf("res %s %s %s %d", b.ref, g, b.kind, b.tok)
	case "err":
		return fmt.Sprintf("err %s %s %d", b.ref, g, b.tok)
	case "gz":
		return "gz " + b.inner.script()
	case "cont":
		s := "cont " + strconv.Itoa(len(b.items))
		for _, it := range b.items {
			s += fmt.Sprintf(" %d %d %s", it.sid, it.seq, it.body.script())
		}
		return s
	case "newsess":
		return "newsess " + strconv.FormatInt(b.salt, 10)
	case "badsalt":
		return fmt.Sprintf("badsalt %s %d", b.ref, b.salt)
	case "badmsg":
		return "badmsg " + b.ref
	case "svc", "garbage":
		return b.op + " " + strconv.Itoa(b.n)
	case "reg":
		return fmt.Sprintf("reg %08x %d", b.crc, b.n)
	case "enum":
		return fmt.Sprintf("enum %08x", b.crc)
	}
	return b.op
}

func parseBody(tok []string) (*bodySpec, []string) {
	if len(tok) == 0 {
		trouble("empty body spec")
	}
	op := tok[0]
	tok = tok[1:]
	b := &bodySpec{op: op}
	switch op {
	case "res":
		b.ref, b.gz, b.kind = tok[0], tok[1] == "1", tok[2]
		b.tok, _ = strconv.ParseInt(tok[3], 10, 64)
		return b, tok[4:]
	case "err":
		b.ref, b.gz = tok[0], tok[1] == "1"
		b.tok, _ = strconv.ParseInt(tok[2], 10, 64)
		return b, tok[3:]
	case "gz":
		b.inner, tok = parseBody(tok)
		return b, tok
	case "badgz": // badgz <crc|isize|deflate> <gz ... | res ... 1 ... | err ... 1 ...>
		variant := tok[0]
		inner, rest := parseBody(tok[1:])
		if inner.op != "gz" && !((inner.op == "res" || inner.op == "err") && inner.gz) {
			trouble("badgz needs a gz body or a gzip-packed result")
		}
		inner.gzbad = variant
		return inner, rest
	case "cont":
		n, _ := strconv.Atoi(tok[0])
		tok = tok[1:]
		for i := 0; i < n; i++ {
			sid, _ := strconv.ParseInt(tok[0], 10, 64)
			seq, _ := strconv.Atoi(tok[1])
			var ib *bodySpec
			ib, tok = parseBody(tok[2:])
			b.items = append(b.items, itemSpec{sid: sid, seq: int32(seq), body: ib})
		}
		return b, tok
	case "newsess":
		b.salt, _ = strconv.ParseInt(tok[0], 10, 64)
		return b, tok[1:]
	case "badsalt":
		b.ref = tok[0]
		b.salt, _ = strconv.ParseInt(tok[1], 10, 64)
		return b, tok[2:]
	case "badmsg":
		b.ref = tok[0]
		return b, tok[1:]
	case "svc", "garbage":
		b.n, _ = strconv.Atoi(tok[0])
		return b, tok[1:]
	case "reg":
		c, _ := strconv.ParseUint(tok[0], 16, 32)
		b.crc = uint32(c)
		b.n, _ = strconv.Atoi(tok[1])
		return b, tok[2:]
	case "enum":
		c, _ := strconv.ParseUint(tok[0], 16, 32)
		b.crc = uint32(c)
		return b, tok[1:]
	case "pong", "ack", "upd":
		return b, tok
	}
	trouble("unknown body op %q", op)
	return nil, nil
}

// ---- end of run: direct oracles ---------------------------------------------------------

func (r *run) viol(prop, key, text string) {
	r.out.line("V", strconv.Itoa(r.idx), prop, key, text)
}

func (r *run) finish() {
	idx := strconv.Itoa(r.idx)
	if r.srv == nil {
		r.out.line("E", idx, r.status)
		return
	}
	frames := r.srv.Frames()
	t1 := time.Now()
	ok := r.status == "ok"
	// C11 / C09: every call returned exactly the answer addressed to its own request
	for t, c := range r.callers {
		for _, cs := range c.calls {
			exp := expectedResult(cs.spec)
			got := cs.got
			if !cs.done {
				got = "pending"
			}
			r.out.line("R", idx, strconv.Itoa(t), strconv.Itoa(cs.k), exp, got, strconv.Itoa(cs.answers), strconv.Itoa(len(cs.ids)))
			if cs.done && got != exp {
				r.viol("C11", "salt-rotation:caller-got-foreign-or-no-answer:"+cs.spec.kind,
					fmt.Sprintf("caller %d call %d (declared %s) expected %s got %s", t, cs.k, cs.spec.kind, exp, got))
				r.viol("C09", "live:misrouted-or-mistyped:"+cs.spec.kind,
					fmt.Sprintf("caller %d call %d (declared %s, request written %d time(s)) expected %s got %s", t, cs.k, cs.spec.kind, len(cs.ids), exp, got))
			}
			if !cs.done && cs.answers > 0 && ok {
				r.viol("C11", "salt-rotation:answered-call-pending",
					fmt.Sprintf("caller %d call %d was answered by the server under its latest msg id but never returned", t, cs.k))
				r.viol("C09", "live:answered-call-pending:"+cs.spec.kind,
					fmt.Sprintf("caller %d call %d (declared %s, request written %d time(s)) was answered by the server under its latest msg id but never returned", t, cs.k, cs.spec.kind, len(cs.ids)))
				r.viol("C16", "answered-call-never-returned",
					fmt.Sprintf("caller %d call %d was answered by the server (possibly as a later item of a container) but never returned although the receive loop is idle", t, cs.k))
			}
		}
	}
	// C11: which requests were written more than once, and under which salt
	rejected := map[int64]rejection{}
	for _, rj := range r.rejections {
		if _, dup := rejected[rj.id]; !dup {
			rejected[rj.id] = rj
		}
	}
	type reqFrame struct {
		f     refserver.Frame
		token int64
	}
	byToken := map[int64][]refserver.Frame{}
	for _, f := range frames {
		if p, isPing := f.Obj.(*objects.PingParams); isPing && f.OpenErr == "" && !f.Plain {
			byToken[p.PingID] = append(byToken[p.PingID], f)
		}
	}
	for tok, fs := range byToken {
		for i := 0; i+1 < len(fs); i++ {
			rj, wasRejected := rejected[fs[i].MsgID]
			if !wasRejected || fs[i+1].Index < rj.atFrames {
				r.viol("C11", "salt-rotation:accepted-request-resent",
					fmt.Sprintf("the request with token %d was written again (frame %d after frame %d) although the server had not rejected the earlier frame", tok, fs[i+1].Index, fs[i].Index))
				continue
			}
			good := false
			for _, s := range r.saltsSent[rj.order:] {
				if s == fs[i+1].Salt {
					good = true
				}
			}
			if !good {
				r.viol("C11", "salt-rotation:resent-under-old-salt",
					fmt.Sprintf("the request with token %d was re-sent (frame %d) under salt %s, not under the salt of the rejection (%d) or a later one",
						tok, fs[i+1].Index, r.showSalt(fs[i+1].Salt), rj.salt))
			}
		}
	}
	if ok {
		// a rejected request whose waiter was registered must have been written again
		for _, c := range r.callers {
			for _, cs := range c.calls {
				for j, id := range cs.ids {
					if _, was := rejected[id]; was && j == len(cs.ids)-1 && !cs.done {
						r.viol("C11", "salt-rotation:rejected-request-not-resent",
							fmt.Sprintf("request %s was rejected by bad_server_salt but not written again although nothing was left to schedule", r.norm(id)))
					}
				}
			}
		}
		// the adopted salt is in the session store
		_, salt, _, _ := r.cl.VerifSnapshot()
		if len(r.saltsSent) > 0 && r.cfg.store == "" {
			if s, err := session.NewFromFile(r.sess).Load(); err != nil || s == nil || s.Salt != salt {
				r.viol("C11", "salt-rotation:salt-not-saved", "the session store does not hold the salt the client uses after the rotation")
			}
			want := r.saltsSent[len(r.saltsSent)-1]
			if salt != want {
				r.viol("C11", "salt-rotation:salt-not-adopted", fmt.Sprintf("the client's salt is %s after the last salt message announced %d", r.showSalt(salt), want))
			}
		}
	}
	// C10: wire order over ALL connections of the session
	var prev refserver.Frame
	havePrev := false
	sessions := map[int64]bool{}
	for i, f := range frames {
		if f.Plain {
			continue
		}
		kind := "req"
		acks := ""
		if ids := refserver.AckedIDs(f); ids != nil {
			kind = "ack"
			l := []string{}
			for _, id := range ids {
				l = append(l, strconv.FormatInt(id, 10))
			}
			acks = strings.Join(l, ",")
		}
		r.out.line("W", idx, strconv.Itoa(i), r.norm(f.MsgID), strconv.Itoa(int(f.SeqNo)), kind, acks, strconv.Itoa(f.Conn), r.showSalt(f.Salt))
		if f.OpenErr != "" {
			r.viol("C10", "unopenable-frame", "frame "+strconv.Itoa(i)+": "+f.OpenErr)
			continue
		}
		sessions[f.SessionID] = true
		if f.MsgID&3 != 0 {
			r.viol("C10", "msgid-not-multiple-of-4", fmt.Sprintf("frame %d msg_id mod 4 = %d", i, f.MsgID&3))
		}
		sec := f.MsgID >> 32
		if sec < r.t0.Unix()-1 || sec > t1.Unix()+1 {
			r.viol("C10", "msgid-not-from-clock", fmt.Sprintf("frame %d msg_id seconds outside the run's clock window", i))
		}
		content := refserver.IsContentRelated(f)
		if content && f.SeqNo&1 == 0 {
			r.viol("C10", "content-even-seqno", fmt.Sprintf("frame %d is content-related but seq_no %d is even", i, f.SeqNo))
		}
		if !content && f.SeqNo&1 == 1 {
			r.viol("C10", "ack-odd-seqno", fmt.Sprintf("frame %d is msgs_ack but seq_no %d is odd", i, f.SeqNo))
		}
		if havePrev && prev.SessionID == f.SessionID {
			across := ""
			if prev.Conn != f.Conn {
				across = "-across-reconnect"
			}
			if f.MsgID <= prev.MsgID {
				r.viol("C10", "msgid-order-inversion"+across,
					fmt.Sprintf("frame %d (connection %d) written after frame %d (connection %d) has msg_id lower by %d", i, f.Conn, prev.Index, prev.Conn, prev.MsgID-f.MsgID))
			}
			if f.SeqNo < prev.SeqNo {
				r.viol("C10", "seqno-decreased"+across,
					fmt.Sprintf("frame %d (connection %d) seq_no %d after %d (connection %d) in the same session", i, f.Conn, f.SeqNo, prev.SeqNo, prev.Conn))
			}
		}
		prev = f
		havePrev = true
	}
	if len(sessions) > 1 {
		r.viol("C10", "session-id-changed", "the client used more than one session id in one process")
	}
	// C10: one acknowledgement per delivery of a content-related message that was processed
	if ok {
		ackCount := map[int64]int{}
		for _, f := range frames {
			for _, id := range refserver.AckedIDs(f) {
				ackCount[id]++
			}
		}
		owed := map[int64]int{}
		for _, m := range r.sent {
			// every message processResponse is entered for - also one whose body cannot be handled, also the
			// items after it in a container; not what the transport itself refused (no msg id reached the client)
			if m.seq&1 == 1 && !strings.HasPrefix(m.class, "transport:") {
				owed[m.sid]++
			}
		}
		for sid, n := range owed {
			if ackCount[sid] < n {
				text := fmt.Sprintf("server message %d was delivered %d time(s) with an odd seq_no but acknowledged %d time(s)", sid, n, ackCount[sid])
				r.viol("C10", "content-message-not-acked", text)
				r.viol("C16", "content-message-not-acked", text+" (well-formed service traffic must be handled like any other message)")
			}
		}
	}
	// C16: reconnect keeps the key
	if r.plainSeen() > 0 {
		r.viol("C16", "reconnect:plain-frame-sent", fmt.Sprintf("%d unencrypted frame(s) were written after the session was keyed", r.plainSeen()))
	}
	if r.front != nil {
		if ex, _, _ := r.front.counts(); ex > 1 {
			r.viol("C16", "reconnect:key-exchange-repeated", fmt.Sprintf("%d key exchanges in one process", ex))
		}
	}
	seq, salt, rk, hk := r.cl.VerifSnapshot()
	sort.Ints(rk)
	r.out.line("F", idx, fmt.Sprintf("seq=%d table=%d hints=%d salt=%s gen=%d q=%d", seq, len(rk), len(hk), r.showSalt(salt), r.conns, r.warnLen()))
	if !r.deferE {
		r.out.line("E", idx, r.status)
	}
}

func (r *run) teardown() {
	atomic.StoreInt32(&r.controlled, 0)
	if r.cl != nil {
		// the receive loop stays parked at its yield point for ever; pinger and reader helper stop on cancel
		func() {
			defer func() { _ = recover() }()
			_ = r.cl.Disconnect()
		}()
	}
	if r.front != nil {
		r.front.Close()
	} else if r.srv != nil {
		r.srv.Close()
	}
	for _, c := range r.callers {
		if c.active == nil {
			close(c.cmd)
		}
	}
}

func stallWaitFromEnv() time.Duration {
	if v, err := strconv.Atoi(os.Getenv("VERIF_STALL_MS")); err == nil && v > 0 {
		return time.Duration(v) * time.Millisecond
	}
	return 300 * time.Millisecond
}

func runtimeStack(buf []byte) int { return runtime.Stack(buf, true) }

func watchdogFromEnv() time.Duration {
	if v, err := strconv.Atoi(os.Getenv("VERIF_WATCHDOG_MS")); err == nil && v > 0 {
		return time.Duration(v) * time.Millisecond
	}
	return 8 * time.Second
}
