// Command c11: trace recorder for C11 (salt rotation), C16 (nothing the server sends stops the
// receive loop) and the reconnect / repeated-delivery part of C10, on the client-LTS infrastructure
// of cmd/c09 (refserver, csched).
//
//	c11 run <profile> <random N | script FILE> <trace-out>     supervisor: schedules run in child processes
//	c11 worker <profile> <mode> <arg> <from> <trace-out>       (internal) runs schedules from index <from>
//
// profile: c11 | c16 | c10 - what the random generator emphasises (rotations / hostile messages and
// warning channel / reconnects and repeated or out-of-order server msg ids). Every schedule ends with
// the same closing procedure: run everything that is enabled, answer what is still open, then a
// probe call that must complete.
//
// Trace lines (tab separated):
//
//	B idx ncallers description config     (config: warn=nil|live|buf:N handler=0|1|2|3 fresh=0|1)
//	S idx script-line                 the schedule as executed, with symbolic references (replay)
//	A idx n label observation         one action: label for the Coq model, projected observation
//	P idx class                       what the receive loop is about to work on (names the killer)
//	R idx t k expected got answers attempts
//	W idx i normid seq kind acks conn salt
//	V idx prop key text               direct-oracle violation
//	K idx goroutine-dump              when the watchdog fired
//	F idx state                       shared state at the end
//	E idx status                      ok | stuck:... | died:... | notenabled:...
package main

import (
	"bufio"
	"bytes"
	"fmt"
	"os"
	"os/exec"
	"path/filepath"
	"strconv"
	"strings"
	"time"

	vc "verifcommon"

	"github.com/xelaj/mtproto/verifharness/refserver"
)

var kinds = []string{"obj", "bool", "vecbare", "vecobj", "err"}

type script struct {
	idx      int
	ncallers int
	desc     string
	cfg      config
	lines    []string  // nil for random schedules
	items    []regItem // registry sweep: what this schedule sends
}

func loadScripts(path string) []script {
	f, err := os.Open(path)
	if err != nil {
		trouble("open %s: %v", path, err)
	}
	defer f.Close()
	var out []script
	sc := bufio.NewScanner(f)
	sc.Buffer(make([]byte, 1<<20), 1<<24)
	for sc.Scan() {
		l := strings.TrimSpace(sc.Text())
		if l == "" || l[0] == '#' {
			continue
		}
		tok := strings.Fields(l)
		switch tok[0] {
		case "S":
			n, _ := strconv.Atoi(tok[2])
			out = append(out, script{idx: len(out), ncallers: n, desc: strings.Join(tok[3:], " "), cfg: config{warnCap: -1}, lines: []string{}})
		case "cfg":
			if len(out) == 0 {
				trouble("cfg line before S header")
			}
			out[len(out)-1].cfg = parseConfig(tok[1:])
		case "E":
		default:
			if len(out) == 0 {
				trouble("script line before S header")
			}
			out[len(out)-1].lines = append(out[len(out)-1].lines, l)
		}
	}
	return out
}

// runOne executes one schedule; problems end up in the E line. It reports whether the process can go on
// with the next schedule: after a stall it cannot - the stalled goroutine may be spinning.
func runOne(s script, profile string, seed uint64, w *traceWriter) bool {
	r := &run{out: w, status: "ok", profile: profile}
	w.line("B", strconv.Itoa(s.idx), strconv.Itoa(s.ncallers), s.desc, s.cfg.String())
	func() {
		defer func() {
			if x := recover(); x != nil {
				switch e := x.(type) {
				case stuck:
					where, block := blockedIn(e.stack)
					r.status = "stuck:" + r.describe(e.what)
					if where != "" {
						r.status += ":in-" + where
					}
					w.line("K", strconv.Itoa(s.idx), strings.ReplaceAll(block+"\n----\n"+firstLines(e.stack, 40), "\n", " | "))
				case setupRefused:
					r.status = "setup-refused"
					r.srv = nil
					r.viol("C11", "store:fresh-session-refused", "after a conformant key exchange the session (key, salt, address) "+
						"is not written to the session store, 21 times out of 21: "+e.msg)
				case harnessTrouble:
					w.line("E", strconv.Itoa(s.idx), "harness:"+e.msg)
					fmt.Fprintln(os.Stderr, "HARNESS-TROUBLE:", e.msg)
					os.Exit(3)
				default:
					panic(x)
				}
			}
		}()
		r.start(s.idx, s.ncallers, s.cfg)
		if r.cfg.fresh {
			r.record("keyex "+strconv.Itoa(keyexSalt), fmt.Sprintf("keyed plain=%d st=%s", 3, r.storedSalt()))
		}
		if s.lines != nil {
			r.playScript(s.lines)
		} else {
			r.random = true
			if s.items != nil {
				r.playRegistry(s.items)
			} else {
				r.playRandom(vc.NewRng(seed).Fork(uint64(s.idx)+1), profile)
			}
			if r.status == "ok" && !r.aborted {
				r.slog("finish")
				r.settleAndProbe()
			}
		}
	}()
	r.deferE = profile == "c16" && r.status == "ok" && !r.aborted && !r.cfg.fresh && r.cfg.store == "" && s.idx%3 == 0 && r.srv != nil
	r.finish()
	if r.deferE {
		r.epilogue(w, s.idx)
		w.line("E", strconv.Itoa(s.idx), r.status)
	}
	r.teardown()
	return !strings.HasPrefix(r.status, "stuck")
}

// epilogue: after the history has been judged (the model knows nothing of what follows; nothing of it is recorded):
// a request issued in the window in which the client has dropped its connection and not yet made the new one.
// The server closes; the receive loop reads the end of the stream, disconnects and is held before CreateConnection
// (yield point "reconnecting"); a caller's request fails in its write - an error return, as on any broken connection -;
// the loop is let go and reconnects with the same key.  Whatever the failed request left behind, a request issued
// afterwards must be written and answered.
func (r *run) epilogue(w *traceWriter, idx int) {
	defer func() {
		if x := recover(); x != nil {
			switch e := x.(type) {
			case stuck:
				where, _ := blockedIn(e.stack)
				r.viol("C16", "reconnect:stalled-after-a-failed-write:"+r.describe(e.what),
					"after a request failed in its write while the client was between two connections (the server had closed, the client "+
						"had not yet reconnected), "+r.describe(e.what)+" does not come back"+map[bool]string{true: " (blocked in " + where + ")", false: ""}[where != ""])
				w.line("K", strconv.Itoa(idx), strings.ReplaceAll(firstLines(e.stack, 40), "\n", " | "))
			case harnessTrouble:
				fmt.Fprintln(os.Stderr, "HARNESS-TROUBLE (epilogue):", e.msg)
				os.Exit(3)
			default:
				panic(x)
			}
		}
	}()
	p := r.sc.Parked(r.rx)
	if p == nil || p.Point != "read" || r.closePending || r.srv.Sent() > r.reads {
		return
	}
	for _, c := range r.callers {
		if c.active != nil {
			return // somebody is still in flight: not the situation this epilogue is about
		}
	}
	r.note("epilogue:request-in-the-reconnect-window")
	r.out.line("G", strconv.Itoa(idx), "epilogue")
	r.silent = true
	r.srv.CloseConn()
	r.closePending = true
	r.sc.Release(r.rx)
	if ar := r.await(r.rx); ar.Point != "reconnect" {
		return
	}
	r.holdReconn = true
	r.sc.Release(r.rx)
	if ar := r.await(r.rx); ar.Point != "reconnecting" {
		trouble("epilogue: receive loop parked at %q instead of reconnecting", ar.Point)
	}
	// the window request
	t := len(r.callers)
	r.addCaller()
	r.doCall(t, callSpec{kind: "obj", token: int64(7000000 + idx)})
	wc := r.callers[t]
	for i := 0; i < 3 && wc.active != nil; i++ {
		if q := r.sc.Parked(wc.name); q != nil && (q.Point == "prelock" || q.Point == "idgen") {
			r.doStep(wc.name)
		}
	}
	windowResult := "still-running"
	if len(wc.calls) > 0 && wc.calls[0].done {
		windowResult = wc.calls[0].got
	}
	// the loop goes on: new connection, same key
	r.holdReconn = false
	r.sc.Release(r.rx)
	r.rx = r.awaitNewRx()
	r.conns++
	if err := r.srv.WaitConn(r.conns, watchdog); err != nil {
		trouble("%v", err)
	}
	r.closePending = false
	r.wrapTransport()
	if r.lock == wc.name {
		r.lock = "" // (an error return releases the send lock; if it does not, the probe shows it)
	}
	r.lastClass = "request-after-a-failed-write-in-the-reconnect-window(window request: " + windowResult + ")"
	if (idx/3)%2 == 0 {
		// the server announces the session it has just created for the new connection, as a real one does: its
		// first_msg_id lies above everything the client issued before - the request that failed in the window included
		sid := r.srv.NextMsgID(true)
		body := refserver.NewSessionCreated((time.Now().Unix()+10)<<32, 78, r.srv.Salt())
		r.sent = append(r.sent, sentMsg{sid: sid, seq: 1, class: "new_session_created", atFrames: r.nframes})
		if err := r.srv.Send(refserver.Msg{MsgID: sid, SeqNo: 1, Body: body}); err != nil {
			trouble("server send: %v", err)
		}
		r.runEnabled()
		r.lastClass += "+new_session_created-for-the-new-connection"
	}
	r.probe()
	r.out.line("G", strconv.Itoa(idx), "window="+windowResult)
}

// blockedIn finds the receive loop's goroutine in a dump and names the client function it is blocked in.
func blockedIn(stack string) (string, string) {
	for _, g := range strings.Split(stack, "\n\n") {
		if !strings.Contains(g, "startReadingResponses.func1") || strings.Contains(g, "csched.(*Sched).Hook") {
			continue
		}
		where := "receive-loop"
		switch {
		case strings.Contains(g, "popMessageAsBytes") || strings.Contains(g, "compress/gzip"):
			where = "gzip-unpack"
		case strings.Contains(g, ".warnError"):
			where = "warnError"
		case strings.Contains(g, ".writeRPCResponse"):
			where = "writeRPCResponse"
		case strings.Contains(g, ".processResponse") && strings.Contains(g, "chan send"):
			where = "processResponse-chan-send"
		case strings.Contains(g, ".processResponse"):
			where = "processResponse"
		}
		return where, g
	}
	return "", ""
}

func firstLines(s string, n int) string {
	l := strings.Split(s, "\n")
	if len(l) > n {
		l = l[:n]
	}
	return strings.Join(l, "\n")
}

func (r *run) describe(actor string) string {
	show := actor
	if actor == r.rx || r.rxSeen[actor] {
		show = "rx"
	}
	if r.sc != nil {
		for i := len(r.sc.Log) - 1; i >= 0; i-- {
			if r.sc.Log[i].Actor == actor {
				return show + "-after-" + r.sc.Log[i].Point + ":" + r.lastClass
			}
		}
	}
	return show + ":" + r.lastClass
}

func (r *run) slog(l string) {
	if !r.silent {
		r.out.line("S", strconv.Itoa(r.idx), l)
	}
}

func (r *run) playScript(lines []string) {
	for n, l := range lines {
		tok := strings.Fields(l)
		switch tok[0] {
		case "call":
			t, _ := strconv.Atoi(tok[1])
			tk, _ := strconv.ParseInt(tok[4], 10, 64)
			for t >= len(r.callers) {
				r.addCaller()
			}
			if r.callers[t].active != nil {
				r.status = fmt.Sprintf("notenabled:%d:%s", n, strings.ReplaceAll(l, " ", "_"))
				return
			}
			r.slog(l)
			r.doCall(t, callSpec{kind: tok[2], hinted: tok[3] == "1", token: tk})
		case "step":
			a := tok[1]
			if a == "rx" {
				a = r.rx
			}
			if !r.enabled(a) {
				if a == r.rx && r.orphanSend() {
					// the receive loop stands before a send nobody will ever take: let it run into the watchdog
					r.slog(l)
					r.doStep(a)
					continue
				}
				p := r.sc.Parked(a)
				at := "running-or-blocked"
				if p != nil {
					at = p.Point
				}
				r.status = fmt.Sprintf("notenabled:%d:%s:at-%s", n, strings.ReplaceAll(l, " ", "_"), at)
				return
			}
			r.slog(l)
			r.doStep(a)
		case "early":
			if r.earlyOwner() == nil {
				r.status = fmt.Sprintf("notenabled:%d:%s", n, strings.ReplaceAll(l, " ", "_"))
				return
			}
			r.slog(l)
			r.doEarly()
			if r.aborted {
				return
			}
		case "srv":
			sid, _ := strconv.ParseInt(tok[1], 10, 64)
			seq, _ := strconv.Atoi(tok[2])
			b, _ := parseBody(tok[3:])
			r.slog(l)
			r.doSrv(sid, int32(seq), b)
		case "raw":
			r.slog(l)
			r.doRaw(tok[1])
		case "close":
			if !r.canClose() {
				r.status = fmt.Sprintf("notenabled:%d:close", n)
				return
			}
			r.slog(l)
			r.doClose()
		case "drain":
			if r.warnLen() == 0 {
				r.status = fmt.Sprintf("notenabled:%d:drain", n)
				return
			}
			r.slog(l)
			r.doDrain()
		case "finish":
			if r.aborted {
				return
			}
			r.slog(l)
			r.settleAndProbe()
		case "probe":
			r.slog(l)
			r.runEnabled()
			r.probe()
		case "settle":
			r.slog(l)
			r.runEnabled()
		default:
			trouble("bad script line %q", l)
		}
	}
}

// runEnabled performs every enabled step until none is left (callers first, then the receive loop).
// A receive loop standing before a send that no live call can take is released too: that is how a
// stall is observed.
func (r *run) runEnabled() {
	for steps := 0; steps < 5000; steps++ {
		did := false
		for _, c := range r.callers {
			if r.enabled(c.name) {
				r.doStep(c.name)
				did = true
			}
		}
		if r.enabled(r.rx) || r.orphanSend() {
			r.doStep(r.rx)
			did = true
		}
		if !did {
			return
		}
	}
	trouble("closing procedure did not come to rest")
}

func (r *run) closingSid(answer bool) int64 {
	if r.nextCloseSid == 0 {
		r.nextCloseSid = 1 << 40
	}
	r.nextCloseSid += 4
	if answer {
		return r.nextCloseSid + 1
	}
	return r.nextCloseSid + 3
}

// settleAndProbe is the closing procedure of every schedule.
func (r *run) settleAndProbe() {
	for round := 0; round < 50; round++ {
		r.runEnabled()
		// answer what is still open: a request the server has seen under its latest id and not answered
		answered := false
		for t, c := range r.callers {
			cs := c.active
			if cs == nil || cs.done || cs.frame < 0 || cs.answers > 0 || !r.inRecv[c.name] && r.sc.Parked(c.name) != nil {
				continue
			}
			if len(cs.ids) == 0 || cs.ids[len(cs.ids)-1] != cs.msgID || r.wasRejected(cs.msgID) {
				continue
			}
			if r.closePending {
				continue
			}
			b := &bodySpec{op: "res", ref: fmt.Sprintf("@%d.%d", t, cs.k), kind: cs.spec.kind, tok: cs.spec.token}
			if cs.spec.kind == "err" {
				b.op = "err"
			}
			if (cs.spec.kind == "vecbare" || cs.spec.kind == "vecobj") && !cs.spec.hinted {
				b.kind = "obj" // a vector for a call without hints would only be one more undecodable message
			}
			sid := r.closingSid(true)
			r.doSrv(sid, 1, b)
			answered = true
		}
		if !answered {
			break
		}
	}
	r.runEnabled()
	r.probe()
}

// probe: a new caller, one call, answered by the server; it must return its answer
func (r *run) probe() {
	t := len(r.callers)
	r.addCaller()
	tok := int64(5000000 + 10*(r.idx%1000) + r.nprobes)
	r.nprobes++
	r.doCall(t, callSpec{kind: "obj", token: tok})
	r.runEnabled()
	cs := r.callers[t].calls[0]
	if cs.frame >= 0 && !cs.done {
		sid := r.closingSid(true)
		b := &bodySpec{op: "res", ref: fmt.Sprintf("@%d.0", t), kind: "obj", tok: tok}
		r.doSrv(sid, 1, b)
		r.runEnabled()
	}
	if !cs.done || cs.got != expectedResult(cs.spec) {
		got := cs.got
		if !cs.done {
			got = "pending"
		}
		r.viol("C16", "probe-not-completed:"+r.lastClass, fmt.Sprintf("the probe call issued after the history did not return its answer (got %s)", got))
	}
}

func main() {
	if len(os.Args) < 6 {
		fmt.Fprintln(os.Stderr, "usage: c11 run <profile> <random N | script FILE> <out>  |  c11 worker <profile> <mode> <arg> <from> <out>")
		os.Exit(3)
	}
	switch os.Args[1] {
	case "run":
		supervise(os.Args[2], os.Args[3], os.Args[4], os.Args[5])
	case "worker":
		from, _ := strconv.Atoi(os.Args[5])
		worker(os.Args[2], os.Args[3], os.Args[4], from, os.Args[6])
	default:
		os.Exit(3)
	}
}

func profileTag(p string) uint64 {
	switch p {
	case "c11":
		return 0xc11c11
	case "c16", "c16r":
		return 0xc16c16
	default:
		return 0xc10c10
	}
}

func schedules(profile, mode, arg string, seed uint64) []script {
	if mode == "script" {
		return loadScripts(arg)
	}
	if profile == "c16r" {
		return registrySchedules(arg, seed)
	}
	n, _ := strconv.Atoi(arg)
	g := vc.NewRng(seed ^ profileTag(profile))
	out := make([]script, n)
	for i := range out {
		out[i] = script{idx: i, ncallers: 1 + g.Intn(4), desc: "random-" + profile, cfg: randomConfig(g, profile, i)}
	}
	return out
}

const batch = 150 // schedules per worker process (parked receive loops are leaked on purpose)

func worker(profile, mode, arg string, from int, outPath string) {
	f, err := os.OpenFile(outPath, os.O_APPEND|os.O_WRONLY|os.O_CREATE, 0o644)
	if err != nil {
		fmt.Fprintln(os.Stderr, err)
		os.Exit(3)
	}
	w := &traceWriter{f: f}
	seed := vc.Seed()
	ss := schedules(profile, mode, arg, seed)
	// the session files stay where they were (baseTmp); what the library itself puts into "the temp directory"
	// lands on another file system
	_, restoreTmp := vc.ForeignTmp(baseTmp)
	defer restoreTmp()
	for i := from; i < len(ss) && i < from+batch; i++ {
		if !runOne(ss[i], profile, seed, w) {
			break // a fresh process for the next schedule
		}
	}
	f.Close()
	os.RemoveAll(filepath.Join(baseTmp, fmt.Sprintf("verif-c11-%d", os.Getpid())))
}

// the temp directory as the process found it
var baseTmp = os.TempDir()

func supervise(profile, mode, arg, outPath string) {
	os.Remove(outPath)
	ss := schedules(profile, mode, arg, vc.Seed())
	from := 0
	for from < len(ss) {
		cmd := exec.Command(os.Args[0], "worker", profile, mode, arg, strconv.Itoa(from), outPath)
		var errb bytes.Buffer
		cmd.Stderr = &errb
		cmd.Stdout = os.Stdout
		err := cmd.Run()
		if cmd.Process != nil {
			os.RemoveAll(filepath.Join(baseTmp, fmt.Sprintf("verif-c11-%d", cmd.Process.Pid)))
			vc.RemoveForeignTmp(cmd.Process.Pid)
		}
		lastB, lastE := -1, -1
		lastP := ""
		data, _ := os.ReadFile(outPath)
		for _, l := range strings.Split(string(data), "\n") {
			f := strings.Split(l, "\t")
			if len(f) >= 2 {
				n, _ := strconv.Atoi(f[1])
				switch f[0] {
				case "B":
					lastB = n
					lastP = ""
				case "E":
					lastE = n
				case "P":
					if len(f) > 2 {
						lastP = f[2]
					}
				}
			}
		}
		if err == nil {
			from = lastE + 1
			if lastE < 0 {
				fmt.Fprintln(os.Stderr, "worker produced nothing")
				os.Exit(3)
			}
			continue
		}
		if ee, ok := err.(*exec.ExitError); ok && ee.ExitCode() == 3 {
			fmt.Fprint(os.Stderr, errb.String())
			os.Exit(3)
		}
		if lastB <= lastE {
			fmt.Fprintln(os.Stderr, "worker died outside a schedule:", err, tail(errb.String(), 3000))
			os.Exit(3)
		}
		// the client killed the process during schedule lastB, while working on lastP
		f, _ := os.OpenFile(outPath, os.O_APPEND|os.O_WRONLY, 0o644)
		fmt.Fprintf(f, "D\t%d\t%s\n", lastB, strings.ReplaceAll(firstLines(panicText(errb.String()), 12), "\n", " | "))
		fmt.Fprintf(f, "E\t%d\tdied:%s:%s\n", lastB, lastP, panicClass(errb.String()))
		f.Close()
		from = lastB + 1
	}
}

func tail(s string, n int) string {
	if len(s) > n {
		return s[len(s)-n:]
	}
	return s
}

func panicText(stderr string) string {
	i := strings.Index(stderr, "panic:")
	if i < 0 {
		i = strings.Index(stderr, "fatal error:")
	}
	if i < 0 {
		return tail(stderr, 600)
	}
	return stderr[i:]
}

// panicClass keeps only the stable part of the panic (where it was raised, not what it said).
func panicClass(stderr string) string {
	switch {
	case strings.Contains(stderr, "mtproto.check("):
		return "check-err"
	case strings.Contains(stderr, "processResponse") && strings.Contains(stderr, "panic("):
		return "deliberate-panic"
	case strings.Contains(stderr, "panic:"):
		return "panic"
	case strings.Contains(stderr, "fatal error:"):
		return "fatal"
	}
	return "exit-without-panic"
}
