package main

// Key-exchange front for "freshly keyed" sessions. The reference server (package refserver) serves
// an already keyed session only; this front sits before it: it accepts the client's TCP connection,
// answers the three plain messages of the key exchange (req_pq, req_DH_params, set_client_DH_params)
// as a conformant server would, creates the reference server with the negotiated key, and from then
// on copies bytes between the client and the reference server. A later connection of the same client
// (reconnect) starts with an encrypted frame and is proxied directly. A plain frame on a later
// connection is counted: the harness reports it (the client must resume without a key exchange).
//
// The arithmetic is textbook DH over a fixed 2048-bit odd modulus (the client does not check the
// group: that is C07's subject), RSA with a key generated per process (the client gets the public
// half through Config.PublicKey).

import (
	"crypto/rand"
	"crypto/rsa"
	"crypto/sha1"
	"encoding/binary"
	"errors"
	"fmt"
	"io"
	"math/big"
	"net"
	"sync"
	"time"

	ige "github.com/xelaj/mtproto/internal/aes_ige"
	"github.com/xelaj/mtproto/internal/encoding/tl"
	"github.com/xelaj/mtproto/internal/keys"
	"github.com/xelaj/mtproto/internal/mode"
	"github.com/xelaj/mtproto/internal/mtproto/objects"
	"github.com/xelaj/mtproto/verifharness/refserver"
)

var (
	rsaOnce sync.Once
	rsaKey  *rsa.PrivateKey
)

func frontRSA() *rsa.PrivateKey {
	rsaOnce.Do(func() {
		k, err := rsa.GenerateKey(rand.Reader, 2048)
		if err != nil {
			panic(err)
		}
		rsaKey = k
	})
	return rsaKey
}

// 2^2048 - 1942289: odd, top bit set
var dhModulus = new(big.Int).Sub(new(big.Int).Lsh(big.NewInt(1), 2048), big.NewInt(1942289))

type front struct {
	ln   net.Listener
	priv *rsa.PrivateKey

	mu         sync.Mutex
	cond       *sync.Cond
	srv        *refserver.Server
	err        error
	conns      int
	plainFirst int // plain frames seen during the first key exchange
	plainLater int // plain frames on any later connection / after the exchange
	exchanges  int
	seed       uint64
}

func newFront(seed uint64) (*front, error) {
	ln, err := net.Listen("tcp", "127.0.0.1:0")
	if err != nil {
		return nil, err
	}
	f := &front{ln: ln, priv: frontRSA(), seed: seed}
	f.cond = sync.NewCond(&f.mu)
	go f.accept()
	return f, nil
}

func (f *front) Addr() string { return f.ln.Addr().String() }

func (f *front) Close() {
	f.ln.Close()
	f.mu.Lock()
	s := f.srv
	f.mu.Unlock()
	if s != nil {
		s.Close()
	}
}

func (f *front) accept() {
	for {
		c, err := f.ln.Accept()
		if err != nil {
			return
		}
		if tc, ok := c.(*net.TCPConn); ok {
			_ = tc.SetNoDelay(true)
		}
		f.mu.Lock()
		f.conns++
		f.mu.Unlock()
		go f.serve(c)
	}
}

type fullRW struct{ c net.Conn }

func (f fullRW) Read(p []byte) (int, error)  { return io.ReadFull(f.c, p) }
func (f fullRW) Write(p []byte) (int, error) { return f.c.Write(p) }

func (f *front) fail(err error) {
	f.mu.Lock()
	if f.err == nil {
		f.err = err
	}
	f.cond.Broadcast()
	f.mu.Unlock()
}

// waitKeyed blocks until the key exchange has produced a reference server (or failed).
func (f *front) waitKeyed(d time.Duration) (*refserver.Server, error) {
	deadline := time.Now().Add(d)
	t := time.AfterFunc(d, func() { f.mu.Lock(); f.cond.Broadcast(); f.mu.Unlock() })
	defer t.Stop()
	f.mu.Lock()
	defer f.mu.Unlock()
	for f.srv == nil && f.err == nil {
		if time.Now().After(deadline) {
			return nil, errors.New("key exchange did not finish")
		}
		f.cond.Wait()
	}
	return f.srv, f.err
}

func (f *front) counts() (exchanges, plainFirst, plainLater int) {
	f.mu.Lock()
	defer f.mu.Unlock()
	return f.exchanges, f.plainFirst, f.plainLater
}

func isPlain(pkt []byte) bool { return len(pkt) >= 8 && binary.LittleEndian.Uint64(pkt[:8]) == 0 }

func (f *front) serve(c net.Conn) {
	defer c.Close()
	m, err := mode.Detect(fullRW{c})
	if err != nil {
		return
	}
	f.mu.Lock()
	keyed := f.srv != nil
	f.mu.Unlock()
	var first []byte
	if !keyed {
		first, err = m.ReadMsg()
		if err != nil {
			return
		}
		if !isPlain(first) {
			f.fail(errors.New("first frame of an unkeyed client is not plain"))
			return
		}
		if err := f.exchange(m, first, false); err != nil {
			f.fail(err)
			return
		}
		first = nil
	}
	// a keyed client (reconnect) is handed to the reference server at once: whatever it writes - also a
	// plain frame, should it start a key exchange again - is logged there
	f.mu.Lock()
	srv := f.srv
	f.mu.Unlock()
	if srv == nil {
		return
	}
	up, err := net.Dial("tcp", srv.Addr())
	if err != nil {
		f.fail(err)
		return
	}
	defer up.Close()
	if tc, ok := up.(*net.TCPConn); ok {
		_ = tc.SetNoDelay(true)
	}
	hdr := []byte{0xee, 0xee, 0xee, 0xee}
	if first != nil {
		l := make([]byte, 4)
		binary.LittleEndian.PutUint32(l, uint32(len(first)))
		hdr = append(append(hdr, l...), first...)
	}
	if _, err := up.Write(hdr); err != nil {
		return
	}
	done := make(chan struct{}, 2)
	go func() { _, _ = io.Copy(up, c); done <- struct{}{} }()
	go func() { _, _ = io.Copy(c, up); done <- struct{}{} }()
	<-done
}

var plainID = (time.Now().Unix() << 32) | 1

func plainEnvelope(body []byte) []byte {
	plainID += 4
	pkt := make([]byte, 20, 20+len(body))
	binary.LittleEndian.PutUint64(pkt[8:], uint64(plainID))
	binary.LittleEndian.PutUint32(pkt[16:], uint32(len(body)))
	return append(pkt, body...)
}

func plainBody(pkt []byte) ([]byte, error) {
	if len(pkt) < 20 {
		return nil, errors.New("short plain packet")
	}
	n := int(binary.LittleEndian.Uint32(pkt[16:20]))
	if n < 0 || 20+n > len(pkt) {
		return nil, errors.New("plain length out of range")
	}
	return pkt[20 : 20+n], nil
}

func int128(b []byte) *tl.Int128 { return &tl.Int128{Int: new(big.Int).SetBytes(b)} }

// exchange answers one complete key exchange on m; first is the packet already read (req_pq).
func (f *front) exchange(m mode.Mode, first []byte, again bool) error {
	count := func() {
		f.mu.Lock()
		if again {
			f.plainLater++
		} else {
			f.plainFirst++
		}
		f.mu.Unlock()
	}
	if !again {
		count()
	}
	body, err := plainBody(first)
	if err != nil {
		return err
	}
	obj, err := tl.DecodeUnknownObject(body)
	if err != nil {
		return fmt.Errorf("req_pq: %v", err)
	}
	rq, ok := obj.(*objects.ReqPQParams)
	if !ok {
		return fmt.Errorf("first plain message is %T", obj)
	}
	serverNonce := make([]byte, 16)
	_, _ = rand.Read(serverNonce)
	serverNonce[0] |= 0x80 // keep the client's big.Int round trips away from leading zeros (C06's subject)
	fp := int64(binary.LittleEndian.Uint64(keys.RSAFingerprint(&f.priv.PublicKey)))
	res, err := tl.Marshal(&objects.ResPQ{
		Nonce: rq.Nonce, ServerNonce: int128(serverNonce),
		Pq: []byte{0x17, 0xED, 0x48, 0x94, 0x1A, 0x08, 0xF9, 0x81}, Fingerprints: []int64{fp},
	})
	if err != nil {
		return err
	}
	if err := m.WriteMsg(plainEnvelope(res)); err != nil {
		return err
	}
	// req_DH_params
	pkt, err := m.ReadMsg()
	if err != nil {
		return err
	}
	count()
	if body, err = plainBody(pkt); err != nil {
		return err
	}
	if obj, err = tl.DecodeUnknownObject(body); err != nil {
		return fmt.Errorf("req_DH_params: %v", err)
	}
	rd, ok := obj.(*objects.ReqDHParamsParams)
	if !ok {
		return fmt.Errorf("second plain message is %T", obj)
	}
	cnum := new(big.Int).SetBytes(rd.EncryptedData)
	mnum := new(big.Int).Exp(cnum, f.priv.D, f.priv.N)
	if mnum.BitLen() > 255*8 {
		return errors.New("rsa block does not fit 255 bytes (left-aligned short ciphertext of the client): retry")
	}
	block := mnum.FillBytes(make([]byte, 255))
	inner := block[20:]
	if len(inner) < 96 || binary.LittleEndian.Uint32(inner) != 0x83c95aec {
		return errors.New("p_q_inner_data not found in the rsa block: retry")
	}
	h := sha1.Sum(inner[:96])
	if string(h[:]) != string(block[:20]) {
		return errors.New("p_q_inner_data hash mismatch: retry")
	}
	newNonce := new(big.Int).SetBytes(inner[64:96])
	srvNonce := new(big.Int).SetBytes(serverNonce)
	a, _ := rand.Int(rand.Reader, new(big.Int).Lsh(big.NewInt(1), 2040))
	ga := new(big.Int).Exp(big.NewInt(3), a, dhModulus)
	answer, err := tl.Marshal(&objects.ServerDHInnerData{
		Nonce: rd.Nonce, ServerNonce: int128(serverNonce), G: 3,
		DhPrime: dhModulus.Bytes(), GA: ga.Bytes(), ServerTime: int32(time.Now().Unix()),
	})
	if err != nil {
		return err
	}
	enc := ige.EncryptMessageWithTempKeys(answer, newNonce, srvNonce)
	res, err = tl.Marshal(&objects.ServerDHParamsOk{Nonce: rd.Nonce, ServerNonce: int128(serverNonce), EncryptedAnswer: enc})
	if err != nil {
		return err
	}
	if err := m.WriteMsg(plainEnvelope(res)); err != nil {
		return err
	}
	// set_client_DH_params
	if pkt, err = m.ReadMsg(); err != nil {
		return err
	}
	count()
	if body, err = plainBody(pkt); err != nil {
		return err
	}
	if obj, err = tl.DecodeUnknownObject(body); err != nil {
		return fmt.Errorf("set_client_DH_params: %v", err)
	}
	sc, ok := obj.(*objects.SetClientDHParamsParams)
	if !ok {
		return fmt.Errorf("third plain message is %T", obj)
	}
	var cdata []byte
	func() {
		defer func() {
			if x := recover(); x != nil {
				err = fmt.Errorf("client_DH_inner_data does not decrypt: %v", x)
			}
		}()
		cdata = ige.DecryptMessageWithTempKeys(sc.EncryptedData, newNonce, srvNonce)
	}()
	if err != nil {
		return err
	}
	if obj, err = tl.DecodeUnknownObject(cdata); err != nil {
		return fmt.Errorf("client_DH_inner_data: %v", err)
	}
	ci, ok := obj.(*objects.ClientDHInnerData)
	if !ok {
		return fmt.Errorf("client inner data is %T", obj)
	}
	gab := new(big.Int).Exp(new(big.Int).SetBytes(ci.GB), a, dhModulus)
	key := gab.Bytes()
	if len(key) != 256 {
		return errors.New("negotiated key shorter than 256 bytes: retry")
	}
	kh := sha1.Sum(key)
	t4 := make([]byte, 32+1+8)
	copy(t4, inner[64:96])
	t4[32] = 1
	copy(t4[33:], kh[0:8])
	nh := sha1.Sum(t4)
	salt := make([]byte, 8)
	for i := range salt {
		salt[i] = inner[64+i] ^ serverNonce[i]
	}
	f.mu.Lock()
	if f.srv == nil {
		srv, e := refserver.New(refserver.Options{AuthKey: key, Salt: int64(binary.LittleEndian.Uint64(salt)), Seed: f.seed})
		if e != nil {
			f.mu.Unlock()
			return e
		}
		f.srv = srv
	}
	f.exchanges++
	f.cond.Broadcast()
	f.mu.Unlock()
	res, err = tl.Marshal(&objects.DHGenOk{Nonce: sc.Nonce, ServerNonce: int128(serverNonce), NewNonceHash1: int128(nh[4:20])})
	if err != nil {
		return err
	}
	return m.WriteMsg(plainEnvelope(res))
}
