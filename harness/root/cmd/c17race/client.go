package main

import (
	"github.com/xelaj/errs"
	"github.com/xelaj/mtproto"
	"github.com/xelaj/mtproto/internal/session"
)

type memStore struct{}

func (memStore) Load() (*session.Session, error) { return nil, errs.NotFound("session", "verif-memory") }
func (memStore) Store(*session.Session) error     { return nil }

func newClient() *mtproto.MTProto {
	m, err := mtproto.NewMTProto(mtproto.Config{SessionStorage: memStore{}, ServerHost: "verif-origin"})
	if err != nil {
		panic(err)
	}
	return m
}
