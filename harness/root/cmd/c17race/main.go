// SetDCList (map write) against tryToProcessErr (map read) on one client, from two goroutines.
// Built with -race by lib/props/c17.py (thorough tier); without the race detector the same pair is
// a hammering loop in which the Go runtime itself aborts on a concurrent map read and write.
// The client is never connected: PHONE_MIGRATE_X names a data centre that is not configured, so
// tryToProcessErr reads the DC table and returns "not found" without dialling.
//
// Output: "done" on stdout; the race detector writes its reports to stderr and exits 66.
package main

import (
	"fmt"
	"sync"

	"github.com/xelaj/mtproto"
)

func main() {
	m := newClient()
	var wg sync.WaitGroup
	wg.Add(2)
	go func() {
		defer wg.Done()
		for i := 0; i < 20000; i++ {
			m.SetDCList(map[int]string{7 + i%3: "verif-x"})
		}
	}()
	go func() {
		defer wg.Done()
		for i := 0; i < 20000; i++ {
			e := &mtproto.ErrResponseCode{Code: 303, Message: "PHONE_MIGRATE_X", AdditionalInfo: 99}
			_ = m.VerifClientProcessErr(e)
		}
	}()
	wg.Wait()
	fmt.Println("done")
}
