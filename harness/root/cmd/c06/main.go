// Command c06: drives the REAL client (mtproto.NewMTProto + CreateConnection -> makeAuthKey) against
// the in-process key-exchange server harness/root/hsserver with injected randomness
// (crypto/rand.Reader replaced by a scripted reader for the duration of a handshake).
//
//	c06 gen <C06|C07> <quick|thorough> <outdir>     supervisor: generate cases from VERIF_SEED, run them in
//	                                                worker processes, write <outdir>/{cases.jsonl,obs.jsonl,summary.tsv,model.in}
//	c06 worker <cases.jsonl> <from> <to> <out>      run cases [from,to) in this process (one at a time)
//	c06 one <case.json>                             run one case (replay), print the summary line
//
// A worker process may die (a panic of the client's read goroutine kills the process): the supervisor
// records "died" for the case that was running and continues with the next one in a fresh process.
package main

import (
	"bufio"
	"bytes"
	crand "crypto/rand"
	"crypto/rsa"
	"crypto/sha1"
	"encoding/binary"
	"encoding/hex"
	"encoding/json"
	"fmt"
	"io"
	"io/ioutil"
	"math/big"
	"net"
	"os"
	"os/exec"
	"path/filepath"
	"runtime"
	"sort"
	"strconv"
	"strings"
	"sync"
	"syscall"
	"time"

	vc "verifcommon"

	"github.com/xelaj/mtproto"
	"github.com/xelaj/mtproto/internal/encoding/tl"
	"github.com/xelaj/mtproto/internal/mtproto/objects"
	"github.com/xelaj/mtproto/internal/session"
	"github.com/xelaj/mtproto/verifharness/hsserver"
)

// ---------------------------------------------------------------------------------------------

type Case struct {
	ID     string
	Prop   string
	Desc   string
	Corner string // field:leading-zero-count for the forced corners of C06
	Expect string // success | abort | any
	// client draws (hex)
	Nonce, NewNonce, B string
	// server parameters
	ServerNonce  string
	PQ           string
	P, Q         string // hex
	Key          int
	ExtraFps     []uint64
	FpIndex      int
	G            int32
	DHPrime      string
	A            string
	ServerTime   int32
	AnswerPad    string
	GAWidth      int
	DHPrimeWidth int
	Fault        *FaultJ
	PingID       int64
}

type FaultJ struct {
	Target string
	Kind   string
	Pos    int
	Rand   string
	Adopt  bool
}

type Obs struct {
	ID          string
	Class       string // ok | err | panic | hang | died
	ErrText     string
	LateStep    int // 0, or the request (1..3) after which the client was held for 300 ms before it listened
	Frames      []string // client -> server plain TL bodies, as the server received them
	Replies     []string // server -> client plain TL bodies
	ClientKey   string
	ClientHash  string
	ClientSalt  string // 8 bytes, little-endian pattern as on the wire
	Session     string // "-" or key|hash|salt|host-ok
	SrvKey      string
	SrvKeyID    string
	SrvSalt     string
	SrvHash1    string
	SrvNewNonce string
	SrvRSABlock string
	SrvInnerPQ  string
	SrvClInner  string
	ClientPad   string
	Rejected    string
	EncSeen     int
	EncOpened   bool
	EncErr      string
	EncPacket   string
	EncSalt     string
	EncSID      string
	EncMsgID    string // 8 bytes LE hex
	EncSeq      uint32
	EncBody     string
	RandUsed    int
	RandOverrun int
	WallMs      int64
	// state and wire after the exchange
	AfterEncrypted  bool   // m.encrypted after CreateConnection returned
	PostReq         string // what one ordinary request (ping) made afterwards did: pong-ok | wrong:<type> | err:<text> | panic:<text> | pending
	PostPlain       int    // plain frames that request put on the wire
	HangRetried     bool   // a hang verdict was re-run alone with the long watchdog
	StoreCalls      int    // SessionStorage.Store calls up to and including the probe request
	ChatterFirst    string // after an abandoned exchange: the first of the five further server messages
	AfterChatter    string // ... and store calls / client state / session file after them
	StoreWindow     string // "", or "sent": an encrypted pong was sent while the first Store was running
	StoreFail       string // "", "armed", or what the client did after the exchange whose session could not be stored
	Redial          string // "", or what the client did after the server closed the connection of an abandoned exchange
	PlainChatterOK  string // after a successful exchange: effect of the five unencrypted messages
	EncNotification string // ... and of the legitimate encrypted new_session_created
}

func unhex(s string) []byte { return vc.UnHex(s) }
func bigHex(s string) *big.Int {
	if s == "" || s == "-" {
		return new(big.Int)
	}
	return hexInt(s)
}

// ---------------------------------------------------------------------------------------------
// scripted crypto/rand.Reader

type scriptReader struct {
	mu      sync.Mutex
	data    []byte
	pos     int
	overrun int
	real    io.Reader
}

func (r *scriptReader) Read(p []byte) (int, error) {
	r.mu.Lock()
	defer r.mu.Unlock()
	n := copy(p, r.data[r.pos:])
	r.pos += n
	if n < len(p) {
		m, err := io.ReadFull(r.real, p[n:])
		r.overrun += m
		return n + m, err
	}
	return n, nil
}

// ---------------------------------------------------------------------------------------------
// running one case against the real client

func params(c *Case) hsserver.Params {
	k := testKeys[c.Key%len(testKeys)]
	return hsserver.Params{
		ServerNonce: unhex(c.ServerNonce), PQ: unhex(c.PQ), P: bigHex(c.P), Q: bigHex(c.Q),
		N: k.N, E: k.E, D: k.D, ExtraFps: c.ExtraFps, FpIndex: c.FpIndex,
		G: c.G, DHPrime: bigHex(c.DHPrime), A: bigHex(c.A), ServerTime: c.ServerTime,
		AnswerPad: unhex(c.AnswerPad), GAWidth: c.GAWidth, DHPrimeWidth: c.DHPrimeWidth,
	}
}

func fault(c *Case) *hsserver.Fault {
	if c.Fault == nil {
		return nil
	}
	return &hsserver.Fault{Target: c.Fault.Target, Kind: c.Fault.Kind, Pos: c.Fault.Pos, Rand: unhex(c.Fault.Rand), Adopt: c.Fault.Adopt}
}

// countingStore is the SessionStorage handed to the client: the file store of the repository, with every Store counted
type countingStore struct {
	inner  session.SessionLoader
	mu     sync.Mutex
	stores int
	last   string
	// failFirst: the first Store fails (full disk, missing directory): a key exchange that passed every check ends with an error
	failFirst bool
	// hook: runs inside the first Store, before the session is written (a slow storage)
	hook func()
}

func (c *countingStore) Load() (*session.Session, error) { return c.inner.Load() }
func (c *countingStore) Store(s *session.Session) error {
	c.mu.Lock()
	c.stores++
	c.last = fmt.Sprintf("key %d bytes, hash %d bytes, salt %x, host %q", len(s.Key), len(s.Hash), uint64(s.Salt), s.Hostname)
	fail := c.failFirst && c.stores == 1
	hook := c.hook
	if c.stores != 1 {
		hook = nil
	}
	c.mu.Unlock()
	if hook != nil {
		hook()
	}
	if fail {
		return fmt.Errorf("verif: the session storage fails (injected)")
	}
	return c.inner.Store(s)
}
func (c *countingStore) count() (int, string) {
	c.mu.Lock()
	defer c.mu.Unlock()
	return c.stores, c.last
}

// settle waits up to d, returning early when cond holds (polling: the client has no hook that says "read")
func settle(d time.Duration, cond func() bool) {
	deadline := time.Now().Add(d)
	for time.Now().Before(deadline) {
		if cond() {
			// give the remaining messages the chance to be read too
			time.Sleep(15 * time.Millisecond)
			return
		}
		time.Sleep(3 * time.Millisecond)
	}
}

var localhostOnce sync.Once
var localhostOK bool

// localhostIsLoopback: does "localhost" resolve to 127.0.0.1 (and only to addresses of this machine) here?
func localhostIsLoopback() bool {
	localhostOnce.Do(func() {
		a, err := net.ResolveTCPAddr("tcp", "localhost:1")
		localhostOK = err == nil && a.IP.Equal(net.IPv4(127, 0, 0, 1))
	})
	return localhostOK
}

func sessionFile(path, addr string) string {
	if s, err := session.NewFromFile(path).Load(); err == nil && s != nil {
		hostOK := "host-other"
		if s.Hostname == addr {
			hostOK = "host-ok"
		}
		return vc.Hex(s.Key) + "|" + vc.Hex(s.Hash) + "|" + vc.Hex(hsserver.U64(uint64(s.Salt))) + "|" + hostOK
	} else if _, serr := os.Stat(path); serr == nil {
		return "unreadable"
	}
	return "-"
}

var keepAlive []interface{} // servers and clients of finished cases: never closed inside a worker (see package comment)

var lateMu sync.Mutex

// goid: the number of the calling goroutine (first line of its stack trace)
func goid() int64 {
	var buf [64]byte
	n := runtime.Stack(buf[:], false)
	f := strings.Fields(string(buf[:n]))
	if len(f) < 2 {
		return -1
	}
	id, _ := strconv.ParseInt(f[1], 10, 64)
	return id
}

func runCase(c *Case) Obs {
	t0 := time.Now()
	o := Obs{ID: c.ID}
	srv, err := hsserver.New(params(c), fault(c))
	if err != nil {
		o.Class = "harness-error"
		o.ErrText = err.Error()
		return o
	}
	dir, _ := ioutil.TempDir(baseTmp, "c06-")
	defer os.RemoveAll(dir)
	sess := filepath.Join(dir, "session.json")
	if hs := len(c.ID) + int(c.ID[len(c.ID)-1]); hs%4 == 0 {
		// the session file's directory is named through a symbolic link (a mounted volume, a `current` release link):
		// a directory for every purpose of the store
		_ = os.Mkdir(filepath.Join(dir, "real"), 0o700)
		if os.Symlink(filepath.Join(dir, "real"), filepath.Join(dir, "link")) == nil {
			sess = filepath.Join(dir, "link", "session.json")
		}
	}
	k := testKeys[c.Key%len(testKeys)]
	store := &countingStore{inner: session.NewFromFile(sess)}
	// the server's address as the application configures it: an IP literal, or - every third case, where this
	// machine resolves it to the loopback address - a NAME with a port
	host := srv.Addr()
	if (len(c.ID)+int(c.ID[len(c.ID)-1]))%3 == 1 && localhostIsLoopback() && strings.HasPrefix(host, "127.0.0.1:") {
		host = "localhost:" + strings.TrimPrefix(host, "127.0.0.1:")
	}
	m, err := mtproto.NewMTProto(mtproto.Config{
		SessionStorage: store, ServerHost: host,
		PublicKey: &rsa.PublicKey{N: k.N, E: int(k.E.Int64())},
	})
	if err != nil {
		o.Class = "harness-error"
		o.ErrText = "NewMTProto: " + err.Error()
		return o
	}
	keepAlive = append(keepAlive, srv, m)
	// one conformant exchange in five cannot store its session: CreateConnection returns the error, key and salt are dropped,
	// and whatever unencrypted message comes next on the open connection must be refused like after any abandoned exchange
	if fault(c) == nil && c.Expect == "success" && (len(c.ID)+int(c.ID[len(c.ID)-1]))%5 == 2 {
		store.failFirst = true
		o.StoreFail = "armed"
	}

	// ... and one in five has a slow storage: while the session of the finished exchange is being stored the server already
	// speaks - an encrypted pong, which changes nothing and needs no acknowledgement.  The receive loop has to take it like
	// any message of a keyed connection; the request made afterwards must be answered.
	if fault(c) == nil && c.Expect == "success" && (len(c.ID)+int(c.ID[len(c.ID)-1]))%5 == 3 {
		store.hook = func() {
			if err := srv.SendChatter("enc-pong", 0); err == nil {
				o.StoreWindow = "sent"
			} else {
				o.StoreWindow = "not-sent:" + err.Error()
			}
			time.Sleep(120 * time.Millisecond)
		}
	}

	script := &scriptReader{data: bytes.Join([][]byte{unhex(c.Nonce), unhex(c.NewNonce), unhex(c.B)}, nil), real: crand.Reader}
	old := crand.Reader
	crand.Reader = script
	type res struct {
		err      error
		panicked bool
		pv       interface{}
	}
	done := make(chan res, 1)
	// a client that is LATE: in one conformant exchange out of four the goroutine that runs the key exchange is held
	// for 300 ms between writing one of its three requests and receiving the answer (yield point "prerecv", build tag
	// verif) - a goroutine the scheduler did not run for a while.  The answer is there long before it listens; the
	// exchange has to complete all the same.
	lateStep := 0
	if fault(c) == nil {
		h := 0
		for _, ch := range c.ID {
			h = h*31 + int(ch)
		}
		if h%4 == 0 {
			lateStep = 1 + (h/4)%3
		}
	}
	o.LateStep = lateStep
	go func() {
		var r res
		me := goid()
		seen := 0
		if lateStep > 0 {
			lateMu.Lock()
			mtproto.VerifYieldHook = func(point string, id int64) {
				if point == "prerecv" && goid() == me {
					seen++
					if seen == lateStep {
						time.Sleep(300 * time.Millisecond)
					}
				}
			}
		}
		r.panicked, r.pv = vc.Catch(func() { r.err = m.CreateConnection() })
		if lateStep > 0 {
			mtproto.VerifYieldHook = nil
			lateMu.Unlock()
		}
		done <- r
	}()
	watchdog := 20 * time.Second
	if v, err := strconv.Atoi(os.Getenv("C06_WATCHDOG_S")); err == nil && v > 0 {
		watchdog = time.Duration(v) * time.Second
	}
	rejected := make(chan struct{})
	go func() {
		srv.Wait(watchdog, func(r hsserver.Result) bool { return false })
		close(rejected)
	}()
	select {
	case r := <-done:
		switch {
		case r.panicked:
			o.Class = "panic"
			o.ErrText = fmt.Sprint(r.pv)
		case r.err != nil:
			o.Class = "err"
			o.ErrText = r.err.Error()
		default:
			o.Class = "ok"
		}
	case <-rejected:
		// either the server refused a client message (the client will wait for ever) or the watchdog fired
		select {
		case r := <-done:
			if r.panicked {
				o.Class, o.ErrText = "panic", fmt.Sprint(r.pv)
			} else if r.err != nil {
				o.Class, o.ErrText = "err", r.err.Error()
			} else {
				o.Class = "ok"
			}
		case <-time.After(300 * time.Millisecond):
			o.Class = "hang"
			o.ErrText = "CreateConnection did not return"
		}
	}
	crand.Reader = old
	script.mu.Lock()
	o.RandUsed, o.RandOverrun = script.pos, script.overrun
	script.mu.Unlock()

	// the client's state right after CreateConnection returned
	if o.Class != "hang" {
		var h []byte
		o.AfterEncrypted, _, h, _, _ = m.VerifSessionState()
		o.ClientKey = vc.Hex(m.GetAuthKey())
		o.ClientHash = vc.Hex(h)
		o.ClientSalt = vc.Hex(hsserver.U64(uint64(m.GetServerSalt())))
	}
	// the server speaks again on the still open connection after an ABANDONED exchange: unencrypted new_session_created,
	// bad_server_salt, rpc_result, a container holding new_session_created, 40 bytes of garbage with a non-zero key id
	// (all five, the first one rotating with the case).  Nothing of it may reach the session store or the client state.
	if o.Class == "err" || o.Class == "panic" {
		kinds := hsserver.ChatterKinds
		rot := 0
		for _, ch := range c.ID {
			rot += int(ch)
		}
		for i := range kinds {
			k := kinds[(i+rot)%len(kinds)]
			if err := srv.SendChatter(k, 0x1badc0de00000000+uint64(i)); err != nil {
				break
			}
			if i == 0 {
				o.ChatterFirst = k
			}
			time.Sleep(8 * time.Millisecond)
		}
		settle(60*time.Millisecond, func() bool { n, _ := store.count(); return n > 0 })
		enc, key, _, salt, _ := m.VerifSessionState()
		n, last := store.count()
		o.AfterChatter = fmt.Sprintf("stores=%d encrypted=%v key=%d salt=%x file=%s", n, enc, len(key), uint64(salt), tail(sessionFile(sess, host), 12))
		if n > 0 {
			o.AfterChatter += " last-store: " + last
		}
		if o.StoreFail == "armed" {
			if n == 1 && !enc && len(key) == 0 && salt == 0 && strings.HasSuffix(o.AfterChatter[:strings.Index(o.AfterChatter, " last-store")], "file=-") {
				o.StoreFail = "clean"
			} else {
				o.StoreFail = "not clean: " + o.AfterChatter
			}
			o.AfterChatter = ""
		}
	}
	// one ordinary request on the same client: after success it must be sent encrypted, be readable by the server
	// and be answered (rpc_result{pong}); after an abandoned exchange nothing encrypted may reach the wire
	if o.Class != "hang" {
		post := make(chan string, 1)
		go func() {
			var resp interface{}
			var err error
			p, pv := vc.Catch(func() { resp, err = m.MakeRequest(&objects.PingParams{PingID: c.PingID}) })
			switch {
			case p:
				post <- "panic:" + tail(fmt.Sprint(pv), 120)
			case err != nil:
				post <- "err:" + tail(err.Error(), 120)
			default:
				if pong, ok := resp.(*objects.Pong); ok && pong.PingID == c.PingID {
					post <- "pong-ok"
				} else {
					post <- fmt.Sprintf("wrong:%T", resp)
				}
			}
		}()
		wait := 120 * time.Millisecond
		if o.Class == "ok" {
			wait = 15 * time.Second
		}
		select {
		case o.PostReq = <-post:
		case <-time.After(wait):
			o.PostReq = "pending"
		}
	}
	o.Session = sessionFile(sess, host)
	o.StoreCalls, _ = store.count()
	// ... and after a SUCCESSFUL exchange: the unencrypted messages must change nothing (the key exchange is over, the
	// session is encrypted); the encrypted new_session_created is legitimate: salt taken over and stored
	if o.Class == "ok" && o.PostReq == "pong-ok" {
		before, _ := store.count()
		salt0 := m.GetServerSalt()
		for i, k := range hsserver.ChatterKinds {
			_ = srv.SendChatter(k, 0x1badc0de00000000+uint64(i))
			time.Sleep(8 * time.Millisecond)
		}
		settle(60*time.Millisecond, func() bool { n, _ := store.count(); return n > before || m.GetServerSalt() != salt0 })
		n1, last := store.count()
		o.PlainChatterOK = fmt.Sprintf("stores+%d salt-changed=%v", n1-before, m.GetServerSalt() != salt0)
		if n1 != before {
			o.PlainChatterOK += " last-store: " + last
		}
		salt1 := m.GetServerSalt()
		_ = srv.SendChatter("enc-new_session_created", 0x600dc0de12345678)
		settle(300*time.Millisecond, func() bool { return uint64(m.GetServerSalt()) == 0x600dc0de12345678 })
		n2, _ := store.count()
		o.EncNotification = fmt.Sprintf("stores+%d salt-taken=%v (salt before %x)", n2-n1, uint64(m.GetServerSalt()) == 0x600dc0de12345678, uint64(salt1))
	}
	// an abandoned exchange is over: when the server then closes the connection the client must not come back on its own
	// (a reconnect from the still running receive loop would run a second key exchange behind the caller's back, store its
	// session and send encrypted traffic although CreateConnection has returned the error)
	if (o.Class == "err" || o.Class == "panic") && int(c.ID[len(c.ID)-1])%2 == 0 {
		srv.CloseConn()
		settle(350*time.Millisecond, func() bool {
			for _, e := range srv.Events() {
				if e.Dir == "info" && e.Note == "second connection refused" {
					return true
				}
			}
			return false
		})
		o.Redial = "none"
		for _, e := range srv.Events() {
			if e.Dir == "info" && e.Note == "second connection refused" {
				o.Redial = "dialled-again"
			}
		}
		if n, _ := store.count(); n > 0 && o.AfterChatter != "" && strings.HasPrefix(o.AfterChatter, "stores=0") {
			o.Redial += "+stored"
		}
	}
	for _, e := range srv.Events() {
		switch e.Dir {
		case "recv-plain":
			o.Frames = append(o.Frames, vc.Hex(e.Bytes))
		case "send-plain":
			o.Replies = append(o.Replies, vc.Hex(e.Bytes))
		case "send-err":
			o.Replies = append(o.Replies, "!err404")
		case "close":
			o.Replies = append(o.Replies, "!closed")
		case "recv-plain-post":
			o.PostPlain++
		case "recv-enc":
			if o.EncPacket == "" {
				o.EncPacket = vc.Hex(e.Bytes)
			}
		}
	}
	r := srv.Result()
	o.SrvKey, o.SrvKeyID, o.SrvSalt, o.SrvHash1 = vc.Hex(r.AuthKey), vc.Hex(r.KeyID), vc.Hex(r.Salt), vc.Hex(r.NonceHash1)
	o.SrvNewNonce, o.SrvRSABlock, o.ClientPad = vc.Hex(r.NewNonce), vc.Hex(r.RSABlock), vc.Hex(r.ClientPad)
	o.SrvInnerPQ, o.SrvClInner = vc.Hex(r.InnerPQ), vc.Hex(r.ClientInner)
	o.Rejected = r.Rejected
	o.EncSeen, o.EncOpened, o.EncErr = r.EncSeen, r.EncOpened, r.EncErr
	o.EncSalt, o.EncSID, o.EncMsgID, o.EncSeq, o.EncBody = vc.Hex(r.EncSalt), vc.Hex(r.EncSID), vc.Hex(hsserver.U64(uint64(r.EncMsgID))), r.EncSeq, vc.Hex(r.EncBody)
	o.WallMs = time.Since(t0).Milliseconds()
	return o
}

// ---------------------------------------------------------------------------------------------
// worker / supervisor

func readCases(path string) []Case {
	f, err := os.Open(path)
	if err != nil {
		fatal("open cases: %v", err)
	}
	defer f.Close()
	var cs []Case
	sc := bufio.NewScanner(f)
	sc.Buffer(make([]byte, 1<<20), 1<<26)
	for sc.Scan() {
		var c Case
		if err := json.Unmarshal(sc.Bytes(), &c); err != nil {
			fatal("bad case line: %v", err)
		}
		cs = append(cs, c)
	}
	return cs
}

func fatal(f string, a ...interface{}) {
	fmt.Fprintf(os.Stderr, "c06: "+f+"\n", a...)
	os.Exit(3)
}

// the temp directory as the process found it
var baseTmp = os.TempDir()

func worker(casesPath string, from, to int, outPath string) {
	// a corrupted dh_prime of 0 makes math/big compute g^b without reduction: bound the damage
	lim := syscall.Rlimit{Cur: 6 << 30, Max: 6 << 30}
	_ = syscall.Setrlimit(syscall.RLIMIT_AS, &lim)
	cs := readCases(casesPath)
	// session directories stay in the temp directory as found (baseTmp); what the library itself puts into
	// "the temp directory" lands on another file system
	vc.ForeignTmp(baseTmp)
	out, err := os.OpenFile(outPath, os.O_APPEND|os.O_CREATE|os.O_WRONLY, 0644)
	if err != nil {
		fatal("%v", err)
	}
	for i := from; i < to && i < len(cs); i++ {
		fmt.Fprintf(out, "begin\t%d\n", i)
		o := runCase(&cs[i])
		b, _ := json.Marshal(o)
		fmt.Fprintf(out, "obs\t%d\t%s\n", i, b)
		if o.Class == "hang" {
			// a goroutine of the client may be spinning: continue in a fresh process
			out.Close()
			os.Exit(7)
		}
	}
	out.Close()
	os.Exit(0) // leave the clients' goroutines behind
}

// superviseRange runs cases [from,to) in successive worker processes and returns their observations.
func superviseRange(casesPath string, cs []Case, from, to int, tag string) map[int]Obs {
	res := map[int]Obs{}
	outPath := fmt.Sprintf("%s.out.%s", casesPath, tag)
	os.Remove(outPath)
	next := from
	for next < to {
		cmd := exec.Command(os.Args[0], "worker", casesPath, strconv.Itoa(next), strconv.Itoa(to), outPath)
		var stderr bytes.Buffer
		cmd.Stderr = &stderr
		cmd.Stdout = &stderr
		err := cmd.Run()
		if cmd.Process != nil {
			vc.RemoveForeignTmp(cmd.Process.Pid)
		}
		data, _ := ioutil.ReadFile(outPath)
		began := -1
		for _, l := range strings.Split(string(data), "\n") {
			f := strings.SplitN(l, "\t", 3)
			if len(f) >= 2 && f[0] == "begin" {
				began, _ = strconv.Atoi(f[1])
			}
			if len(f) == 3 && f[0] == "obs" {
				i, _ := strconv.Atoi(f[1])
				var o Obs
				if json.Unmarshal([]byte(f[2]), &o) == nil {
					res[i] = o
				}
			}
		}
		if err == nil {
			break
		}
		// the worker died while running case `began`
		if began < next {
			fatal("worker failed before starting a case: %v\n%s", err, tail(stderr.String(), 2000))
		}
		if _, ok := res[began]; !ok {
			res[began] = Obs{ID: cs[began].ID, Class: "died", ErrText: tail(firstPanic(stderr.String()), 600), Session: "?"}
		}
		next = began + 1
	}
	return res
}

func firstPanic(s string) string {
	if i := strings.Index(s, "panic:"); i >= 0 {
		return s[i:]
	}
	return s
}

func tail(s string, n int) string {
	if len(s) > n {
		return s[:n]
	}
	return s
}

var hangRetries, hangsConfirmed int

func supervise(cs []Case, outdir string) []Obs {
	casesPath := filepath.Join(outdir, "cases.jsonl")
	f, _ := os.Create(casesPath)
	w := bufio.NewWriter(f)
	for i := range cs {
		b, _ := json.Marshal(cs[i])
		w.Write(b)
		w.WriteByte('\n')
	}
	w.Flush()
	f.Close()
	nw := runtime.NumCPU()
	if nw > 12 {
		nw = 12
	}
	if nw > len(cs) {
		nw = len(cs)
	}
	if nw < 1 {
		nw = 1
	}
	per := (len(cs) + nw - 1) / nw
	var wg sync.WaitGroup
	var mu sync.Mutex
	all := map[int]Obs{}
	for k := 0; k < nw; k++ {
		from, to := k*per, (k+1)*per
		if to > len(cs) {
			to = len(cs)
		}
		if from >= to {
			continue
		}
		wg.Add(1)
		go func(k, from, to int) {
			defer wg.Done()
			r := superviseRange(casesPath, cs, from, to, strconv.Itoa(k))
			mu.Lock()
			for i, o := range r {
				all[i] = o
			}
			mu.Unlock()
		}(k, from, to)
	}
	wg.Wait()
	obs := make([]Obs, len(cs))
	for i := range cs {
		o, ok := all[i]
		if !ok {
			o = Obs{ID: cs[i].ID, Class: "harness-error", ErrText: "no observation"}
		}
		obs[i] = o
	}
	// a "hang" (20 s watchdog while 12 workers share the machine and SplitPQ is a clock-seeded Pollard rho) is
	// CONFIRMED before it counts: the case is run again, alone, with a 120 s limit
	limit := "120"
	if v := os.Getenv("C06_HANG_RETRY_S"); v != "" {
		limit = v
	}
	os.Setenv("C06_WATCHDOG_S", limit)
	sem := make(chan struct{}, 4) // at most four re-runs at a time, each in its own process
	var rwg sync.WaitGroup
	for i := range obs {
		if obs[i].Class != "hang" {
			continue
		}
		hangRetries++
		rwg.Add(1)
		go func(i int) {
			defer rwg.Done()
			sem <- struct{}{}
			defer func() { <-sem }()
			r := superviseRange(casesPath, cs, i, i+1, fmt.Sprintf("retry%d", i))
			o2, ok := r[i]
			if !ok {
				return
			}
			o2.HangRetried = true
			mu.Lock()
			if o2.Class == "hang" {
				hangsConfirmed++
				o2.ErrText += " (confirmed: the case was run a second time on its own with a " + limit + " s limit)"
			}
			obs[i] = o2
			mu.Unlock()
		}(i)
	}
	rwg.Wait()
	os.Unsetenv("C06_WATCHDOG_S")
	of, _ := os.Create(filepath.Join(outdir, "obs.jsonl"))
	ow := bufio.NewWriter(of)
	for i := range obs {
		b, _ := json.Marshal(obs[i])
		ow.Write(b)
		ow.WriteByte('\n')
	}
	ow.Flush()
	of.Close()
	return obs
}

// ---------------------------------------------------------------------------------------------
// independent expectations (direct oracles on the real client) and the oracle tables for the model

func sha(b []byte) []byte { h := sha1.Sum(b); return h[:] }

// blockFor rebuilds, from the specification, the 255-byte RSA block the client must produce.
func blockFor(pq, p, q, nonce, srvNonce, newNonce []byte) []byte {
	inner := bytes.Join([][]byte{hsserver.U32(hsserver.CrcPQInnerData), hsserver.TLBytes(pq), hsserver.TLBytes(p), hsserver.TLBytes(q), nonce, srvNonce, newNonce}, nil)
	blk := make([]byte, 255)
	copy(blk, append(sha(inner), inner...))
	return blk
}

type oracle struct {
	lines []string
	seen  map[string]bool
}

func (t *oracle) add(l string) {
	if t.seen == nil {
		t.seen = map[string]bool{}
	}
	if !t.seen[l] {
		t.seen[l] = true
		t.lines = append(t.lines, l)
	}
}

func zhex(n *big.Int) string { // signed hex: "-" prefix via 'n' marker
	if n.Sign() < 0 {
		return "n" + hex.EncodeToString(new(big.Int).Neg(n).Bytes())
	}
	if n.Sign() == 0 {
		return "00"
	}
	return hex.EncodeToString(n.Bytes())
}

func (t *oracle) modexp(b, e, m *big.Int) *big.Int {
	if m.Sign() <= 0 {
		return nil
	}
	r := new(big.Int).Exp(b, e, m)
	t.add("modexp\t" + zhex(b) + "\t" + zhex(e) + "\t" + zhex(m) + "\t" + zhex(r))
	return r
}

func (t *oracle) prime(n *big.Int) {
	v := "0"
	if n.ProbablyPrime(20) {
		v = "1"
	}
	t.add("prime\t" + zhex(n) + "\t" + v)
}

// split: the factorisation the client reported (taken from its own req_DH_params frame) after the harness
// checked it independently; when the client never got that far, a trial factorisation for small numbers.
func (t *oracle) split(n, p, q *big.Int) {
	t.add("split\t" + zhex(n) + "\t" + zhex(p) + "\t" + zhex(q))
}

// replyBytes: the body of a logged reply; nil for the markers of a transport error frame / a closed connection
func replyBytes(r string) []byte {
	if strings.HasPrefix(r, "!") {
		return nil
	}
	return unhex(r)
}

type tlr struct {
	b  []byte
	ok bool
}

func (r *tlr) take(n int) []byte {
	if !r.ok || len(r.b) < n {
		r.ok = false
		return make([]byte, n)
	}
	x := r.b[:n]
	r.b = r.b[n:]
	return x
}
func (r *tlr) str() []byte {
	h := r.take(1)[0]
	n, used := int(h), 1+int(h)
	if h == 254 {
		l := r.take(3)
		n = int(l[0]) | int(l[1])<<8 | int(l[2])<<16
		used = 4 + n
	}
	v := r.take(n)
	r.take((4 - used%4) % 4)
	return v
}

// buildOracle records exactly the std-lib calls (math/big Exp, ProbablyPrime; the client's own SplitPQ
// result) that the model needs for this case.
func buildOracle(c *Case, o *Obs) []string {
	t := &oracle{}
	k := testKeys[c.Key%len(testKeys)]
	nonce, newNonce := unhex(c.Nonce), unhex(c.NewNonce)
	b := new(big.Int).SetBytes(unhex(c.B))
	// what the client was told in resPQ
	var pqSent, srvNonceSent []byte
	if len(o.Replies) >= 1 {
		r := &tlr{b: replyBytes(o.Replies[0]), ok: true}
		if binary.LittleEndian.Uint32(r.take(4)) == hsserver.CrcResPQ {
			r.take(16)
			srvNonceSent = append([]byte(nil), r.take(16)...)
			pqSent = r.str()
			if !r.ok {
				pqSent, srvNonceSent = nil, nil
			}
		}
	}
	if pqSent != nil {
		pq := new(big.Int).SetBytes(pqSent)
		t.prime(pq)
		var p, q *big.Int
		if len(o.Frames) >= 2 {
			r := &tlr{b: unhex(o.Frames[1]), ok: true}
			r.take(4 + 32)
			p, q = new(big.Int).SetBytes(r.str()), new(big.Int).SetBytes(r.str())
			if !r.ok {
				p, q = nil, nil
			}
		}
		if p == nil && pq.BitLen() <= 40 && pq.Cmp(big.NewInt(3)) > 0 && !pq.ProbablyPrime(20) {
			for d := int64(2); ; d++ {
				if new(big.Int).Mod(pq, big.NewInt(d)).Sign() == 0 {
					p = big.NewInt(d)
					q = new(big.Int).Div(pq, p)
					break
				}
			}
		}
		if p != nil {
			t.split(pq, p, q)
			t.modexp(new(big.Int).SetBytes(blockFor(pqSent, p.Bytes(), q.Bytes(), nonce, srvNonceSent, newNonce)), k.E, k.N)
		}
	}
	// what the client was told in server_DH_inner_data: decrypt our own reply
	if len(o.Replies) >= 2 && srvNonceSent != nil {
		r := &tlr{b: replyBytes(o.Replies[1]), ok: true}
		if binary.LittleEndian.Uint32(r.take(4)) == hsserver.CrcServerDHParamsOk {
			r.take(32)
			ct := r.str()
			if r.ok && len(ct) >= 32 && len(ct)%16 == 0 {
				key, iv := hsserver.TempKeys(newNonce, srvNonceSent)
				pl := hsserver.IgeDec(key, iv, ct)
				ir := &tlr{b: pl[20:], ok: true}
				if binary.LittleEndian.Uint32(ir.take(4)) == hsserver.CrcServerDHInner {
					ir.take(32)
					g := int32(binary.LittleEndian.Uint32(ir.take(4)))
					dp := new(big.Int).SetBytes(ir.str())
					ga := new(big.Int).SetBytes(ir.str())
					if ir.ok && dp.Sign() > 0 {
						t.modexp(big.NewInt(int64(g)), b, dp)
						t.modexp(ga, b, dp)
					}
				}
			}
		}
	}
	if c.Prop == "C06" {
		// the server side of the model
		a, dp := bigHex(c.A), bigHex(c.DHPrime)
		ga := t.modexp(big.NewInt(int64(c.G)), a, dp)
		gb := t.modexp(big.NewInt(int64(c.G)), b, dp)
		t.modexp(ga, b, dp)
		t.modexp(gb, a, dp)
		pq := new(big.Int).SetBytes(unhex(c.PQ))
		t.prime(pq)
		t.split(pq, bigHex(c.P), bigHex(c.Q))
		blk := blockFor(unhex(c.PQ), bigHex(c.P).Bytes(), bigHex(c.Q).Bytes(), nonce, unhex(c.ServerNonce), newNonce)
		ct := t.modexp(new(big.Int).SetBytes(blk), k.E, k.N)
		t.modexp(ct, k.D, k.N)
	}
	return t.lines
}

// direct verdict on the real client, independent of the Coq model
func direct(c *Case, o *Obs) (string, string) {
	bad := func(f string, a ...interface{}) (string, string) { return "fail", fmt.Sprintf(f, a...) }
	switch o.Class {
	case "harness-error":
		return "harness-error", o.ErrText
	case "panic":
		return bad("the key exchange panicked: %s", tail(o.ErrText, 200))
	case "died":
		return bad("the client process died during the key exchange: %s", tail(o.ErrText, 300))
	case "hang":
		why := "watchdog"
		if o.Rejected != "" {
			why = "the conformant server refused the client's message: " + o.Rejected
		}
		if o.HangRetried {
			why += "; confirmed by running the case a second time on its own with the long limit"
		}
		return bad("CreateConnection never returned (%s)", why)
	}
	if o.RandOverrun != 0 {
		return "harness-error", fmt.Sprintf("the client drew %d more random bytes than scripted", o.RandOverrun)
	}
	if o.StoreFail != "" {
		switch {
		case o.Class != "err":
			return bad("the session could not be stored (first Store fails) but CreateConnection did not return an error: %s", o.Class)
		case o.StoreFail != "clean":
			return bad("after a key exchange whose session could not be stored (CreateConnection returned the error) the server sent five "+
				"unencrypted messages (new_session_created, bad_server_salt, rpc_result, container, garbage) and the client did not stay clean: %s", o.StoreFail)
		}
		return "pass-direct-only", ""
	}
	switch c.Expect {
	case "success":
		if o.Class != "ok" {
			return bad("a conformant exchange was abandoned: %s%s", tail(o.ErrText, 160), map[bool]string{true: "; server: " + o.Rejected, false: ""}[o.Rejected != ""])
		}
		if o.Rejected != "" {
			return bad("server refused: %s", o.Rejected)
		}
		if len(unhex(o.ClientKey)) != 256 || o.ClientKey != o.SrvKey {
			return bad("auth keys differ: client holds %d bytes %s.., server %s..", len(unhex(o.ClientKey)), tail(o.ClientKey, 16), tail(o.SrvKey, 16))
		}
		if o.ClientHash != o.SrvKeyID {
			return bad("key ids differ: client %s server %s", o.ClientHash, o.SrvKeyID)
		}
		if o.ClientSalt != o.SrvSalt {
			return bad("initial salts differ: client %s server %s", o.ClientSalt, o.SrvSalt)
		}
		if o.Session != o.SrvKey+"|"+o.SrvKeyID+"|"+o.SrvSalt+"|host-ok" {
			return bad("stored session is not (key, key id, salt, address) of the exchange: %s", tail(o.Session, 80))
		}
		if o.EncSeen == 0 {
			return bad("no encrypted request reached the server")
		}
		if !o.EncOpened {
			return bad("the first encrypted request is not readable by the server: %s", o.EncErr)
		}
		if !o.AfterEncrypted {
			return bad("CreateConnection succeeded but the client is not in the encrypted state")
		}
		if o.PostReq != "pong-ok" {
			return bad("after a successful key exchange an ordinary request (ping, answered by the server with rpc_result{pong}) did not complete: %s", o.PostReq)
		}
		if o.StoreCalls != 1 {
			return bad("a successful key exchange wrote the session store %d times, not once", o.StoreCalls)
		}
		if c.Prop == "C06" && o.PlainChatterOK != "stores+0 salt-changed=false" {
			return bad("after the successful exchange UNENCRYPTED new_session_created / bad_server_salt / rpc_result / container / garbage changed the session: %s", o.PlainChatterOK)
		}
		return "ok", ""
	case "abort":
		if o.Class == "ok" {
			return bad("the key exchange succeeded although the server's reply was inconsistent (%s)", c.Desc)
		}
		if why := leftBehind(o); why != "" {
			return bad("%s", why)
		}
		if o.Session != "-" {
			return bad("a session was stored by an abandoned key exchange")
		}
		if o.EncSeen != 0 {
			return bad("an encrypted request was sent after an abandoned key exchange")
		}
		return "ok", ""
	default: // any: the fault is not detectable as such; no panic/hang, and success only with agreeing secrets
		if o.Class == "ok" {
			if o.ClientKey != o.SrvKey || o.ClientSalt != o.SrvSalt || o.ClientHash != o.SrvKeyID {
				return bad("success reported but client and server hold different secrets")
			}
			if o.Session == "-" {
				return bad("success reported but no session stored")
			}
		} else {
			if o.Session != "-" {
				return bad("a session was stored by an abandoned key exchange")
			}
			if o.EncSeen != 0 {
				return bad("an encrypted request was sent after an abandoned key exchange")
			}
			if why := leftBehind(o); why != "" {
				return bad("%s", why)
			}
		}
		return "ok", ""
	}
}

// leftBehind: what an abandoned key exchange must not leave in the client (read through the verif export right after
// CreateConnection returned its error, before the probe request)
func leftBehind(o *Obs) string {
	if o.StoreCalls != 0 && o.AfterChatter == "" {
		return fmt.Sprintf("the session store was written %d time(s) although the key exchange was abandoned", o.StoreCalls)
	}
	if o.AfterChatter != "" && !strings.HasPrefix(o.AfterChatter, "stores=0 encrypted=false key=0 salt=0 file=-") {
		return "after the abandoned exchange the server sent five more messages on the same connection (first: " + o.ChatterFirst +
			"; unencrypted new_session_created / bad_server_salt / rpc_result / container, 40 bytes of garbage) and the client did not stay clean: " + o.AfterChatter
	}
	if strings.HasPrefix(o.Redial, "dialled-again") || strings.HasSuffix(o.Redial, "+stored") {
		return "after the exchange was abandoned (CreateConnection returned the error) and the server closed the connection, the client came back on its own: " + o.Redial
	}
	if o.AfterEncrypted {
		return "the client is in the encrypted state after an abandoned key exchange"
	}
	if o.ClientKey != "-" && o.ClientKey != "" {
		return fmt.Sprintf("an abandoned key exchange left an unauthenticated %d-byte auth key in the client (GetAuthKey; the transport would decrypt incoming packets with it)", len(unhex(o.ClientKey)))
	}
	if o.ClientSalt != "0000000000000000" {
		return "an abandoned key exchange left a server salt in the client: " + o.ClientSalt
	}
	return ""
}

// ---------------------------------------------------------------------------------------------
// output for the python side and the model

func at(l []string, i int) string {
	if i < len(l) && l[i] != "" {
		return l[i]
	}
	return "-"
}

func dash(s string) string {
	if s == "" {
		return "-"
	}
	return s
}

func foreignDecodes(body []byte) string {
	ok := false
	vc.Catch(func() {
		_, err := tl.DecodeUnknownObject(body)
		ok = err == nil
	})
	if ok {
		return "1"
	}
	return "0"
}

func writeOutputs(cs []Case, obs []Obs, outdir string) {
	sum := vc.Create(filepath.Join(outdir, "summary.tsv"))
	mi := vc.Create(filepath.Join(outdir, "model.in"))
	for i := range cs {
		c, o := &cs[i], &obs[i]
		verdict, why := direct(c, o)
		fj := "-"
		if c.Fault != nil {
			b, _ := json.Marshal(c.Fault)
			fj = string(b)
		}
		sum.Line(c.ID, c.Prop, c.Desc, dash(c.Corner), c.Expect, o.Class, verdict, dash(why),
			at(o.Frames, 0), at(o.Frames, 1), at(o.Frames, 2),
			at(o.Replies, 0), at(o.Replies, 1), at(o.Replies, 2),
			dash(o.ClientKey), dash(o.ClientHash), dash(o.ClientSalt), dash(o.Session),
			dash(o.SrvKey), dash(o.SrvKeyID), dash(o.SrvSalt), dash(o.SrvHash1),
			strconv.Itoa(o.EncSeen), strconv.FormatBool(o.EncOpened), dash(o.EncPacket), fj, dash(tail(o.ErrText, 200)), dash(o.Rejected),
			dash(o.PostReq), strconv.FormatBool(o.AfterEncrypted), strconv.Itoa(o.PostPlain), strconv.FormatBool(o.HangRetried),
			strconv.Itoa(o.StoreCalls), dash(o.AfterChatter), dash(o.PlainChatterOK), dash(o.EncNotification), strconv.Itoa(o.LateStep), dash(o.Redial), dash(o.StoreFail), dash(o.StoreWindow))

		// model input block
		k := testKeys[c.Key%len(testKeys)]
		mi.Line("case", c.ID, c.Prop)
		mi.Line("draw", c.Nonce, c.NewNonce, c.B, dash(o.ClientPad))
		mi.Line("pub", hex.EncodeToString(k.N.Bytes()), hex.EncodeToString(k.E.Bytes()))
		if c.Prop == "C06" {
			fps := make([]string, 0)
			real := hsserver.Fingerprint(k.N, k.E)
			all := make([]uint64, 0)
			for j, x := range c.ExtraFps {
				if j == c.FpIndex {
					all = append(all, real)
				}
				all = append(all, x)
			}
			if c.FpIndex >= len(c.ExtraFps) {
				all = append(all, real)
			}
			for _, x := range all {
				fps = append(fps, hex.EncodeToString(hsserver.U64(x)))
			}
			mi.Line("srv", c.ServerNonce, c.PQ, c.P, c.Q, hex.EncodeToString(k.D.Bytes()), strings.Join(fps, ","),
				hex.EncodeToString(hsserver.U32(uint32(c.G))), c.DHPrime, c.A, hex.EncodeToString(hsserver.U32(uint32(c.ServerTime))),
				dash(c.AnswerPad), strconv.Itoa(c.GAWidth), strconv.Itoa(c.DHPrimeWidth))
		}
		for _, r := range o.Replies {
			if strings.HasPrefix(r, "!") {
				mi.Line("arrival", r[1:])
				continue
			}
			mi.Line("reply", r)
		}
		if o.EncSeen > 0 && o.EncOpened {
			mi.Line("enc", o.EncSID, o.EncMsgID, hex.EncodeToString(hsserver.U32(o.EncSeq)), dash(o.EncBody))
		}
		for _, l := range buildOracle(c, o) {
			mi.Line(strings.Split(l, "\t")...)
		}
		mi.Line("end", c.ID)
	}
	sum.Close()
	mi.Close()
}

// ---------------------------------------------------------------------------------------------

func main() {
	if len(os.Args) < 2 {
		fatal("usage: c06 gen|worker|one ...")
	}
	switch os.Args[1] {
	case "worker":
		from, _ := strconv.Atoi(os.Args[3])
		to, _ := strconv.Atoi(os.Args[4])
		worker(os.Args[2], from, to, os.Args[5])
	case "gen":
		if len(os.Args) < 5 {
			fatal("usage: c06 gen <C06|C07> <tier> <outdir>")
		}
		if !dhPrime2048.ProbablyPrime(20) || !new(big.Int).Rsh(dhPrime2048, 1).ProbablyPrime(20) {
			fatal("embedded dh_prime is not a safe prime")
		}
		prop, tier, outdir := os.Args[2], os.Args[3], os.Args[4]
		os.MkdirAll(outdir, 0755)
		var cs []Case
		if prop == "C06" {
			cs = genC06(tier)
		} else {
			cs = genC07(tier)
		}
		obs := supervise(cs, outdir)
		writeOutputs(cs, obs, outdir)
		stats := map[string]int{}
		for i := range cs {
			stats["class:"+obs[i].Class]++
			stats["expect:"+cs[i].Expect]++
			if cs[i].Corner != "" {
				stats["corner"]++
			}
			if cs[i].Fault != nil {
				stats["fault:"+cs[i].Fault.Target]++
				stats["kind:"+strings.SplitN(cs[i].Fault.Kind, ":", 2)[0]]++
			}
		}
		keys := make([]string, 0, len(stats))
		for k := range stats {
			keys = append(keys, k)
		}
		sort.Strings(keys)
		for _, k := range keys {
			fmt.Printf("stat\t%s\t%d\n", k, stats[k])
		}
		fmt.Printf("stat\thang_verdicts_rerun_alone\t%d\n", hangRetries)
		fmt.Printf("stat\thang_verdicts_confirmed\t%d\n", hangsConfirmed)
	case "one":
		data, err := ioutil.ReadFile(os.Args[2])
		if err != nil {
			fatal("%v", err)
		}
		var c Case
		if err := json.Unmarshal(data, &c); err != nil {
			fatal("bad case: %v", err)
		}
		dir, _ := ioutil.TempDir("", "c06one-")
		defer os.RemoveAll(dir)
		obs := supervise([]Case{c}, dir)
		v, why := direct(&c, &obs[0])
		fmt.Printf("%s\t%s\t%s\t%s\t%s\n", c.ID, obs[0].Class, v, dash(why), dash(tail(obs[0].ErrText, 300)))
		b, _ := json.Marshal(obs[0])
		fmt.Printf("obs\t%s\n", b)
	default:
		fatal("unknown sub-command")
	}
}
