package main

// Case generators.  Everything derives from VERIF_SEED through splitmix64 (verifcommon.Rng).
//
// C06: conformant exchanges - random parameters plus the 24 forced corners
//      {nonce, server_nonce, new_nonce, new_nonce_hash1, RSA ciphertext, g_a, g_b, g^ab} x {0,1,2 leading zero bytes}.
//      The searches for the corners run here, on math/big (a 1-byte corner costs ~256 cheap trials).
// C07: one fault per otherwise conformant exchange.

import (
	"bytes"
	"encoding/hex"
	"fmt"
	"math/big"
	"strings"

	vc "verifcommon"

	"github.com/xelaj/mtproto/verifharness/hsserver"
)

func hx(b []byte) string { return hex.EncodeToString(b) }

func randPrime(r *vc.Rng, bits int) *big.Int {
	for {
		b := r.Bytes((bits + 7) / 8)
		n := new(big.Int).SetBytes(b)
		n.SetBit(n, bits-1, 1)
		for i := bits; i < 8*len(b); i++ {
			n.SetBit(n, i, 0)
		}
		n.SetBit(n, 0, 1)
		if n.ProbablyPrime(20) {
			return n
		}
	}
}

// smallSafePrime returns a 64-bit safe prime (p and (p-1)/2 prime), deterministic.
func smallSafePrime() *big.Int {
	p := new(big.Int).SetUint64(0xfffffffffffff000 | 0xb)
	for {
		if p.ProbablyPrime(20) && new(big.Int).Rsh(p, 1).ProbablyPrime(20) {
			return p
		}
		p.Sub(p, big.NewInt(2))
	}
}

func lzCount(b []byte) int {
	n := 0
	for n < len(b) && b[n] == 0 {
		n++
	}
	return n
}

// setLZ forces exactly k leading zero bytes
func setLZ(b []byte, k int) []byte {
	out := append([]byte(nil), b...)
	for i := 0; i < k; i++ {
		out[i] = 0
	}
	if out[k] == 0 {
		out[k] = 0x5a
	}
	return out
}

func answerPadLen(c *Case, gaLen, dpLen int) int {
	tlLen := func(n int) int {
		h := 1
		if n >= 254 {
			h = 4
		}
		return (h + n + 3) / 4 * 4
	}
	total := 20 + 4 + 16 + 16 + 4 + tlLen(dpLen) + tlLen(gaLen) + 4
	return (16 - total%16) % 16
}

// ctLen is the length of the conformant encrypted_answer of the case
func ctLen(c *Case) int {
	dp := bigHex(c.DHPrime)
	ga := new(big.Int).Exp(big.NewInt(int64(c.G)), bigHex(c.A), dp)
	gaLen, dpLen := len(ga.Bytes()), len(dp.Bytes())
	if c.GAWidth > gaLen {
		gaLen = c.GAWidth
	}
	if c.DHPrimeWidth > dpLen {
		dpLen = c.DHPrimeWidth
	}
	tlLen := func(n int) int {
		h := 1
		if n >= 254 {
			h = 4
		}
		return (h + n + 3) / 4 * 4
	}
	return 20 + 4 + 16 + 16 + 4 + tlLen(dpLen) + tlLen(gaLen) + 4 + len(unhex(c.AnswerPad))
}

type baseOpts struct {
	pBits, qBits int
	small        bool // 64-bit DH group
}

func baseCase(r *vc.Rng, id, prop string, o baseOpts) Case {
	c := Case{ID: id, Prop: prop, Expect: "success"}
	c.Nonce, c.NewNonce, c.B = hx(r.Bytes(16)), hx(r.Bytes(32)), hx(r.Bytes(256))
	c.ServerNonce = hx(r.Bytes(16))
	p := randPrime(r, o.pBits)
	q := randPrime(r, o.qBits)
	for p.Cmp(q) == 0 {
		q = randPrime(r, o.qBits)
	}
	if p.Cmp(q) > 0 {
		p, q = q, p
	}
	c.P, c.Q = hx(p.Bytes()), hx(q.Bytes())
	c.PQ = hx(new(big.Int).Mul(p, q).Bytes())
	c.Key = r.Intn(len(testKeys))
	for i, n := 0, r.Intn(4); i < n; i++ {
		c.ExtraFps = append(c.ExtraFps, r.U64())
	}
	c.FpIndex = r.Intn(len(c.ExtraFps) + 1)
	c.G = int32(2 + r.Intn(6))
	dp := dhPrime2048
	if o.small {
		dp = smallSafePrime()
	}
	c.DHPrime = hx(dp.Bytes())
	a := new(big.Int).SetBytes(r.Bytes(256))
	c.A = hx(a.Bytes())
	c.ServerTime = int32(1600000000 + r.Intn(100000000))
	c.PingID = int64(r.U64() >> 1)
	if r.Intn(3) == 0 {
		c.GAWidth = len(dp.Bytes())
	}
	finishCase(r, &c)
	return c
}

// finishCase (re)computes what depends on g_a: the answer padding
func finishCase(r *vc.Rng, c *Case) {
	dp := bigHex(c.DHPrime)
	ga := new(big.Int).Exp(big.NewInt(int64(c.G)), bigHex(c.A), dp)
	gaLen := len(ga.Bytes())
	if c.GAWidth > gaLen {
		gaLen = c.GAWidth
	}
	dpLen := len(dp.Bytes())
	if c.DHPrimeWidth > dpLen {
		dpLen = c.DHPrimeWidth
	}
	c.AnswerPad = hx(r.Bytes(answerPadLen(c, gaLen, dpLen)))
}

// searchStep finds i >= 0 such that (x0 * m^i mod p), as width-w big-endian bytes, has exactly k leading zero bytes.
func searchStep(x0, m, p *big.Int, w, k int) int {
	x := new(big.Int).Set(x0)
	for i := 0; i < 1<<24; i++ {
		if lzCount(hsserver.Fixed(x, w)) == k {
			return i
		}
		x.Mul(x, m)
		x.Mod(x, p)
	}
	panic("corner search failed")
}

func addHex(h string, i int) string {
	n := new(big.Int).Add(bigHex(h), big.NewInt(int64(i)))
	b := n.Bytes()
	w := len(unhex(h))
	if len(b) > w {
		b = b[len(b)-w:]
	}
	return hx(hsserver.Fixed(new(big.Int).SetBytes(b), w))
}

func cornerCase(r *vc.Rng, id, field string, k int) Case {
	bits := 20 + r.Intn(8)
	c := baseCase(r, id, "C06", baseOpts{pBits: bits, qBits: bits + 1})
	c.Corner = fmt.Sprintf("%s:%d", field, k)
	c.Desc = fmt.Sprintf("conformant exchange, %s forced to %d leading zero byte(s)", field, k)
	dp := bigHex(c.DHPrime)
	g := big.NewInt(int64(c.G))
	key := testKeys[c.Key%len(testKeys)]
	switch field {
	case "nonce":
		c.Nonce = hx(setLZ(unhex(c.Nonce), k))
	case "server_nonce":
		c.ServerNonce = hx(setLZ(unhex(c.ServerNonce), k))
	case "new_nonce":
		c.NewNonce = hx(setLZ(unhex(c.NewNonce), k))
	case "g_a":
		a := bigHex(c.A)
		i := searchStep(new(big.Int).Exp(g, a, dp), g, dp, 256, k)
		c.A = hx(new(big.Int).Add(a, big.NewInt(int64(i))).Bytes())
		c.GAWidth = 0
		if r.Bool() {
			c.GAWidth = 256
		}
	case "g_b":
		b := bigHex(c.B)
		i := searchStep(new(big.Int).Exp(g, b, dp), g, dp, 256, k)
		c.B = addHex(c.B, i)
	case "g^ab":
		b := bigHex(c.B)
		ga := new(big.Int).Exp(g, bigHex(c.A), dp)
		i := searchStep(new(big.Int).Exp(ga, b, dp), ga, dp, 256, k)
		c.B = addHex(c.B, i)
	case "new_nonce_hash1":
		ga := new(big.Int).Exp(g, bigHex(c.A), dp)
		ak := hsserver.Fixed(new(big.Int).Exp(ga, bigHex(c.B), dp), 256)
		aux := sha(ak)[:8]
		for {
			nn := r.Bytes(32)
			if nn[0] == 0 {
				continue
			}
			h := sha(append(append(append([]byte(nil), nn...), 1), aux...))[4:20]
			if lzCount(h) == k {
				c.NewNonce = hx(nn)
				break
			}
		}
	case "rsa":
		p, q := bigHex(c.P).Bytes(), bigHex(c.Q).Bytes()
		for {
			nn := r.Bytes(32)
			if nn[0] == 0 {
				continue
			}
			blk := blockFor(unhex(c.PQ), p, q, unhex(c.Nonce), unhex(c.ServerNonce), nn)
			ct := new(big.Int).Exp(new(big.Int).SetBytes(blk), key.E, key.N)
			if lzCount(hsserver.Fixed(ct, 256)) == k {
				c.NewNonce = hx(nn)
				break
			}
		}
	}
	finishCase(r, &c)
	return c
}

// derivedCase forces corners on quantities the code DERIVES from two inputs (the salt xor), on the extremes of the
// drawn / chosen values, and on pq at the top of its range (products of two primes just below 2^32: 2^63 < pq < 2^64,
// sent as 8 bytes with the high bit set).
func setPQ(c *Case, p, q uint64) {
	bp, bq := new(big.Int).SetUint64(p), new(big.Int).SetUint64(q)
	if !bp.ProbablyPrime(20) || !bq.ProbablyPrime(20) || p >= q {
		panic(fmt.Sprintf("setPQ: %d, %d are not primes p < q", p, q))
	}
	c.P, c.Q = hx(bp.Bytes()), hx(bq.Bytes())
	c.PQ = hx(new(big.Int).Mul(bp, bq).Bytes())
}

func prevPrime(n uint64) uint64 {
	for n--; !new(big.Int).SetUint64(n).ProbablyPrime(20); n-- {
	}
	return n
}

func nextPrime(n uint64) uint64 {
	for n++; !new(big.Int).SetUint64(n).ProbablyPrime(20); n++ {
	}
	return n
}

func derivedCases(r *vc.Rng, id func() string) []Case {
	var cs []Case
	mk := func(corner, desc string, f func(c *Case)) {
		bits := 18 + r.Intn(8)
		c := baseCase(r.Fork(uint64(len(cs))*977+13), id(), "C06", baseOpts{pBits: bits, qBits: bits + 1})
		c.Corner, c.Desc = corner, "conformant exchange, "+desc
		f(&c)
		fr := r.Fork(uint64(len(cs))*977 + 14)
		finishCase(fr, &c)
		cs = append(cs, c)
	}
	// salt = new_nonce[0:8] xor server_nonce[0:8] with k leading zero bytes: the first k bytes of the two nonces are EQUAL
	for _, k := range []int{1, 2, 3, 7, 8} {
		k := k
		mk(fmt.Sprintf("salt_xor:%d", k), fmt.Sprintf("new_nonce[0:%d] == server_nonce[0:%d] (the salt xor has %d leading zero bytes)", k, k, k), func(c *Case) {
			nn, sn := unhex(c.NewNonce), unhex(c.ServerNonce)
			if nn[0] == 0 {
				nn[0] = 0x31
			}
			copy(sn[:k], nn[:k])
			if k < 8 && sn[k] == nn[k] {
				sn[k] ^= 0x40
			}
			c.NewNonce, c.ServerNonce = hx(nn), hx(sn)
		})
	}
	mk("salt_xor:tail", "new_nonce[7] == server_nonce[7] (the salt xor ends in a zero byte)", func(c *Case) {
		nn, sn := unhex(c.NewNonce), unhex(c.ServerNonce)
		sn[7] = nn[7]
		c.NewNonce, c.ServerNonce = hx(nn), hx(sn)
	})
	mk("salt_xor:both_zero", "new_nonce and server_nonce both begin with a zero byte", func(c *Case) {
		nn, sn := unhex(c.NewNonce), unhex(c.ServerNonce)
		nn[0], sn[0] = 0, 0
		c.NewNonce, c.ServerNonce = hx(nn), hx(sn)
	})
	// pq at the top of its range
	mid := uint64(3037000500) // 2^31.5
	p1 := prevPrime(mid)
	p0 := prevPrime(p1)
	p2 := nextPrime(mid)
	p3 := nextPrime(p2)
	top := prevPrime(1 << 32)
	top2 := prevPrime(top)
	for _, pr := range [][2]uint64{{3037000493, 3037000507}, {4294967279, 4294967291}, {p0, p1}, {p1, p2}, {p2, p3}, {top2, top},
		{2, top}, {3, top}, {prevPrime(1 << 31), top}, {nextPrime(1 << 31), top}} {
		pr := pr
		pq := new(big.Int).Mul(new(big.Int).SetUint64(pr[0]), new(big.Int).SetUint64(pr[1]))
		mk(fmt.Sprintf("pq:%dx%d", pr[0], pr[1]), fmt.Sprintf("pq = %d x %d (%d bits, first byte %02x)", pr[0], pr[1], pq.BitLen(), pq.Bytes()[0]), func(c *Case) {
			setPQ(c, pr[0], pr[1])
		})
	}
	// pq sent left-padded with 1..4 zero bytes (a TL string, servers may pad; the client has to echo the same bytes)
	for k := 1; k <= 4; k++ {
		k := k
		mk(fmt.Sprintf("pq_leading_zeros:%d", k), fmt.Sprintf("pq sent with %d leading zero byte(s)", k), func(c *Case) {
			c.PQ = hx(append(make([]byte, k), unhex(c.PQ)...))
		})
	}
	// every padding length that can align answer_with_hash: the TL layout makes it 0, 4, 8 or 12 depending on the
	// widths in which dh_prime and g_a are sent
	for _, w := range [][3]int{{256, 256, 8}, {257, 256, 4}, {257, 257, 0}, {261, 257, 12}, {261, 261, 8}, {256, 261, 0}} {
		w := w
		mk(fmt.Sprintf("answer_pad:%d:%dx%d", w[2], w[0], w[1]), fmt.Sprintf("dh_prime sent in %d bytes, g_a in %d bytes: %d padding bytes", w[0], w[1], w[2]), func(c *Case) {
			c.DHPrimeWidth, c.GAWidth = w[0], w[1]
		})
	}
	// extremes of the drawn and chosen values
	zero := func(n int) string { return hx(make([]byte, n)) }
	ff := func(n int) string { return hx(bytes.Repeat([]byte{0xff}, n)) }
	mk("draw:nonce=0", "nonce = 0 (16 zero bytes drawn)", func(c *Case) { c.Nonce = zero(16) })
	mk("draw:nonce=ff", "nonce = 2^128-1", func(c *Case) { c.Nonce = ff(16) })
	mk("draw:new_nonce=0", "new_nonce = 0 (32 zero bytes drawn)", func(c *Case) { c.NewNonce = zero(32) })
	mk("draw:new_nonce=ff", "new_nonce = 2^256-1", func(c *Case) { c.NewNonce = ff(32) })
	mk("draw:server_nonce=0", "server_nonce = 0", func(c *Case) { c.ServerNonce = zero(16) })
	mk("draw:server_nonce=ff", "server_nonce = 2^128-1", func(c *Case) { c.ServerNonce = ff(16) })
	mk("draw:nonces_equal", "server_nonce equals the client's nonce", func(c *Case) { c.ServerNonce = c.Nonce })
	mk("draw:b=1", "client exponent b = 1 (g_b = g)", func(c *Case) { c.B = hx(hsserver.Fixed(big.NewInt(1), 256)) })
	mk("draw:b=max", "client exponent b = 2^2048-1", func(c *Case) { c.B = ff(256) })
	// exponents that make g_b a SHORT number (g^b below the prime): the TL string that carries g_b then has every
	// header form and alignment, and client_DH_inner_data every length modulo the cipher's block - a g_b of 253 bytes
	// (one exchange in 2^24) makes hash + data exactly block-aligned
	for _, n := range []int{2, 3, 12, 13, 15, 16, 28, 31, 60, 124, 252, 253, 254, 255} {
		n := n
		mk(fmt.Sprintf("draw:g_b_bytes=%d", n), fmt.Sprintf("client exponent b such that g_b = g^b has %d bytes", n), func(c *Case) {
			g, x := big.NewInt(int64(c.G)), big.NewInt(1)
			for b := 1; b < 6000; b++ {
				x.Mul(x, g)
				if len(x.Bytes()) >= n {
					c.B = hx(hsserver.Fixed(big.NewInt(int64(b)), 256))
					return
				}
			}
		})
	}
	mk("g_a:min", "g = 2, a = 1: g_a = 2, the smallest value the range check 1 < g_a < dh_prime-1 admits", func(c *Case) {
		c.G, c.A, c.GAWidth = 2, "01", 0
	})
	mk("fingerprints:top_bit", "foreign fingerprints with the sign bit set before the real one", func(c *Case) {
		c.ExtraFps = []uint64{0xffffffffffffffff, 0x8000000000000000, 0x8000000000000001}
		c.FpIndex = 3
	})
	return cs
}

var cornerFields = []string{"nonce", "server_nonce", "new_nonce", "new_nonce_hash1", "rsa", "g_a", "g_b", "g^ab"}

func genC06(tier string) []Case {
	r := vc.NewRng(vc.Seed()).Fork(6)
	var cs []Case
	n := 0
	id := func() string { n++; return fmt.Sprintf("h%04d", n) }
	reps := 1
	if tier == "thorough" {
		reps = 8
	}
	for rep := 0; rep < reps; rep++ {
		for _, f := range cornerFields {
			for k := 0; k <= 2; k++ {
				cs = append(cs, cornerCase(r.Fork(uint64(n)), id(), f, k))
			}
		}
	}
	cs = append(cs, derivedCases(r.Fork(4242), id)...)
	nrand := 30
	if tier == "thorough" {
		nrand = 600
	}
	for i := 0; i < nrand; i++ {
		o := baseOpts{pBits: 12 + r.Intn(14), qBits: 12 + r.Intn(14)}
		switch {
		case i%10 == 0:
			o = baseOpts{pBits: 31, qBits: 32} // pq of 63 bits
		case i%10 == 5:
			o = baseOpts{pBits: 32, qBits: 32} // pq of 63..64 bits
		case i%10 == 1:
			o = baseOpts{pBits: 2 + r.Intn(6), qBits: 3 + r.Intn(6)}
		}
		c := baseCase(r.Fork(uint64(n)), id(), "C06", o)
		c.Desc = fmt.Sprintf("conformant exchange, random parameters (pq %d bits, %d-bit group, g=%d, key %d)", bigHex(c.PQ).BitLen(), bigHex(c.DHPrime).BitLen(), c.G, c.Key)
		if i%7 == 3 {
			c.DHPrimeWidth = len(unhex(c.DHPrime)) + 1 // dh_prime sent with one leading zero byte
			fr := r.Fork(uint64(n) + 99)
			finishCase(fr, &c)
		}
		cs = append(cs, c)
	}
	return cs
}

// ---------------------------------------------------------------------------------------------

type fieldSpec struct {
	target string
	width  int // bytes of the field as corrupted by Corrupt (0: variable, see below)
	kinds  []string
	expect string
	adopt  bool
}

func genC07(tier string) []Case {
	r := vc.NewRng(vc.Seed()).Fork(7)
	var cs []Case
	n := 0
	id := func() string { n++; return fmt.Sprintf("f%04d", n) }
	thorough := tier == "thorough"
	base := func() Case {
		bits := 14 + r.Intn(8)
		c := baseCase(r.Fork(uint64(n)*31+7), "", "C07", baseOpts{pBits: bits, qBits: bits + 1})
		c.GAWidth = 0
		fr := r.Fork(uint64(n)*31 + 8)
		finishCase(fr, &c)
		return c
	}
	add := func(target, kind string, pos int, expect string, adopt bool, desc string) {
		c := base()
		c.ID = id()
		c.Expect = expect
		c.Fault = &FaultJ{Target: target, Kind: kind, Pos: pos, Rand: hx(r.Bytes(64)), Adopt: adopt}
		c.Desc = desc
		cs = append(cs, c)
	}
	// positions: sampled in quick, all in thorough (capped for the long fields)
	positions := func(bits, quick, cap int) []int {
		var ps []int
		if thorough {
			if bits <= cap {
				for i := 0; i < bits; i++ {
					ps = append(ps, i)
				}
				return ps
			}
			quick = cap
		}
		seen := map[int]bool{}
		// always the extreme bits, then random ones
		for _, p := range []int{0, bits - 1, 7, bits - 8} {
			if p >= 0 && p < bits && !seen[p] && len(ps) < quick {
				seen[p] = true
				ps = append(ps, p)
			}
		}
		for len(ps) < quick && len(ps) < bits {
			p := r.Intn(bits)
			if !seen[p] {
				seen[p] = true
				ps = append(ps, p)
			}
		}
		return ps
	}
	field := func(target string, bits int, quickFlips, cap int, expect string, adopt bool, withOther bool, what string) {
		for _, p := range positions(bits, quickFlips, cap) {
			add(target, "flip", p, expect, adopt, fmt.Sprintf("%s: bit %d flipped", what, p))
		}
		add(target, "random", 0, expect, adopt, what+": replaced by a fresh random value")
		add(target, "zero", 0, expect, adopt, what+": replaced by zero")
		if withOther {
			add(target, "other", 0, expect, adopt, what+": replaced by the other nonce")
			// a nonce that ends (begins) with a zero byte, echoed with its bytes moved one place: equal as a string of
			// digits with the zeros stripped, not equal as a 128-bit value
			for _, k := range []string{"shr8", "shl8"} {
				add(target, k, 0, expect, adopt, what+": the same bytes moved by one place ("+k+"), the nonces drawn with a zero byte at that end")
				c := &cs[len(cs)-1]
				for _, h := range []*string{&c.Nonce, &c.ServerNonce} {
					b := unhex(*h)
					if k == "shr8" {
						b[len(b)-1] = 0
					} else {
						b[0] = 0
					}
					*h = hx(b)
				}
			}
		}
	}
	ctor := func(target string, names []string, what string) {
		for _, nm := range names {
			add(target, "ctor:"+nm, 0, "abort", false, fmt.Sprintf("%s: reply is %s instead", what, nm))
		}
	}

	// resPQ
	field("respq.nonce", 128, 5, 128, "abort", false, true, "resPQ.nonce")
	field("respq.server_nonce", 128, 3, 128, "any", true, true, "resPQ.server_nonce (the server continues with the altered value)")
	field("respq.pq", 40, 6, 64, "any", true, false, "resPQ.pq (the server continues with the altered value)")
	field("respq.fingerprints", 64, 5, 64, "abort", false, false, "resPQ fingerprint of the configured key")
	add("respq.fingerprints", "empty", 0, "abort", false, "resPQ offers no fingerprint at all")
	ctor("respq.ctor", []string{"server_DH_params_ok", "server_DH_params_fail", "dh_gen_ok", "pong"}, "answer to req_pq")
	// server_DH_params_ok
	field("dhok.nonce", 128, 5, 128, "abort", false, true, "server_DH_params_ok.nonce")
	field("dhok.server_nonce", 128, 5, 128, "abort", false, true, "server_DH_params_ok.server_nonce")
	ctor("dhok.ctor", []string{"server_DH_params_fail", "resPQ", "dh_gen_ok", "dh_gen_retry", "pong"}, "answer to req_DH_params")
	field("dhok.hash", 160, 8, 160, "abort", false, false, "SHA-1 prefix of the encrypted answer")
	field("dhok.cipher", 4700, 24, 400, "abort", false, false, "encrypted_answer ciphertext")
	for _, d := range []int{-1000000, -999996, -999984, -999968, -1, 1, -16, 16, 32, 4} {
		c := base()
		c.ID = id()
		c.Expect = "abort"
		l := ctLen(&c) + d
		if d <= -999000 {
			l = d + 1000000
		}
		c.Fault = &FaultJ{Target: "dhok.cipher", Kind: fmt.Sprintf("len:%d", l), Rand: hx(r.Bytes(64))}
		c.Desc = fmt.Sprintf("encrypted_answer (%d bytes) cut or zero-extended to %d bytes", ctLen(&c), l)
		cs = append(cs, c)
	}
	for _, extra := range []int{16, 32, 17, 1, 8} {
		c := base()
		c.ID = id()
		c.Expect = "abort"
		c.Fault = &FaultJ{Target: "dhok.pad", Kind: "pad", Rand: hx(r.Bytes(len(unhex(c.AnswerPad)) + extra))}
		c.Desc = fmt.Sprintf("answer_with_hash padded with %d bytes (allowed: 0..15 aligning to 16)", len(unhex(c.AnswerPad))+extra)
		cs = append(cs, c)
	}
	// server_DH_inner_data (encrypted consistently with the temp keys)
	field("inner.nonce", 128, 5, 128, "abort", false, true, "server_DH_inner_data.nonce")
	field("inner.server_nonce", 128, 5, 128, "abort", false, true, "server_DH_inner_data.server_nonce")
	field("inner.g", 32, 6, 32, "abort", false, false, "server_DH_inner_data.g")
	field("inner.dh_prime", 2048, 8, 256, "abort", false, false, "server_DH_inner_data.dh_prime")
	field("inner.g_a", 2040, 8, 256, "abort", false, false, "server_DH_inner_data.g_a")
	field("inner.server_time", 32, 3, 32, "any", false, false, "server_DH_inner_data.server_time")
	ctor("inner.ctor", []string{"dh_gen_ok", "resPQ", "pong"}, "object inside encrypted_answer")
	// dh_gen_ok
	field("genok.nonce", 128, 5, 128, "abort", false, true, "dh_gen_ok.nonce")
	field("genok.server_nonce", 128, 5, 128, "abort", false, true, "dh_gen_ok.server_nonce")
	field("genok.hash", 128, 10, 128, "abort", false, false, "dh_gen_ok.new_nonce_hash1")
	ctor("genok.ctor", []string{"dh_gen_retry", "dh_gen_fail", "server_DH_params_fail", "resPQ", "pong"}, "answer to set_client_DH_params")

	// a notification that arrives BEFORE the (lying) answer to set_client_DH_params, sealed with the key the client is
	// about to adopt (the server is the DH peer and knows it) or unencrypted: new_session_created, bad_server_salt, a
	// container with new_session_created, an rpc_result
	for _, k := range []string{"enc:new_session_created", "enc:bad_server_salt", "enc:container", "enc:rpc_result", "plain:new_session_created", "plain:bad_server_salt"} {
		add("genok.inject", k, 0, "abort", false, "before the answer to set_client_DH_params (a dh_gen_ok with a wrong new_nonce_hash1) the server sends "+
			strings.Replace(strings.Replace(k, "enc:", "an ENCRYPTED (key of the unfinished exchange) ", 1), "plain:", "an unencrypted ", 1))
	}
	// replies that cannot be read at all, at each of the three steps: an unregistered constructor id, a truncated body,
	// an empty body, the 4-byte transport error frame -404 (what real servers send), the connection closed
	for step := 1; step <= 3; step++ {
		for _, k := range []string{"unknown_ctor", "truncated", "empty", "err404", "close"} {
			add(fmt.Sprintf("raw%d", step), k, 0, "abort", false,
				fmt.Sprintf("answer to request %d: %s", step, map[string]string{"unknown_ctor": "a body with an unregistered constructor id",
					"truncated": "a body cut short by 8 bytes", "empty": "an empty body", "err404": "the transport error frame -404",
					"close": "the connection is closed instead"}[k]))
		}
	}
	// the right hash under the wrong constructor and the wrong hash under the right one
	for _, nm := range []string{"dh_gen_retry+hash1", "dh_gen_fail+hash1", "dh_gen_ok+hash2", "dh_gen_ok+hash3", "dh_gen_retry+hash2", "dh_gen_fail+hash3"} {
		add("genok.ctor", "ctor:"+nm, 0, "abort", false, "answer to set_client_DH_params: "+strings.Replace(nm, "+", " carrying new_nonce_", 1))
	}
	// pq that is not a product of two primes: a prime (SplitPQ would never return), p^2, 1, 0, more than 64 bits
	setPQFault := func(v *big.Int, width int, expect, what string) {
		c := base()
		c.ID = id()
		c.Expect = expect
		b := v.Bytes()
		if len(b) < width {
			b = hsserver.Fixed(v, width)
		}
		c.Fault = &FaultJ{Target: "respq.pq", Kind: "set", Rand: hx(b), Adopt: true}
		c.Desc = "resPQ.pq = " + what + " (the server continues with it)"
		cs = append(cs, c)
	}
	setPQFault(big.NewInt(2147483647), 0, "abort", "the prime 2^31-1")
	setPQFault(new(big.Int).SetUint64(18446744073709551557), 0, "abort", "the prime 2^64-59")
	setPQFault(randPrime(r, 40), 0, "abort", "a random 40-bit prime")
	setPQFault(big.NewInt(2), 0, "abort", "the prime 2")
	setPQFault(big.NewInt(3), 8, "abort", "the prime 3 in 8 bytes")
	setPQFault(big.NewInt(1), 0, "abort", "1")
	setPQFault(big.NewInt(0), 1, "abort", "0 (one zero byte)")
	setPQFault(big.NewInt(0), 0, "abort", "the empty string")
	setPQFault(new(big.Int).Lsh(big.NewInt(15), 64), 0, "abort", "15 * 2^64 (68 bits)")
	sq := randPrime(r, 20)
	setPQFault(new(big.Int).Mul(sq, sq), 0, "any", "the square of a 20-bit prime")
	setPQFault(big.NewInt(4), 0, "any", "4")
	setPQFault(big.NewInt(3*5*7), 0, "any", "3*5*7")

	// a few conformant exchanges with the same generator, so that "success" is exercised by this check too
	for i := 0; i < 4; i++ {
		c := base()
		c.ID = id()
		c.Desc = "conformant exchange (control)"
		cs = append(cs, c)
	}
	// quick tier: repeat the whole single-fault table with other base exchanges until ~400 scripts
	if !thorough {
		first := len(cs)
		for rep := 0; len(cs) < 400 && rep < 4; rep++ {
			for i := 0; i < first && len(cs) < 400; i++ {
				src := cs[i]
				if src.Fault == nil {
					continue
				}
				c := base()
				c.ID = id()
				c.Expect, c.Desc = src.Expect, src.Desc
				f := *src.Fault
				f.Rand = hx(r.Bytes(64))
				if f.Kind == "flip" {
					f.Pos = r.Intn(1 << 20)
					c.Desc = fmt.Sprintf("%s (another position)", src.Desc)
				}
				if f.Target == "dhok.pad" {
					f.Rand = hx(r.Bytes(len(unhex(c.AnswerPad)) + 16 + r.Intn(16)))
				}
				c.Fault = &f
				cs = append(cs, c)
			}
		}
	}
	return cs
}
