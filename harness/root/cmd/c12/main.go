// Harness for property C12 (internal/session file store + the decision NewMTProto takes).
//
//	gen <tier> <histories-out>                 generate histories (deterministic from VERIF_SEED)
//	run <histories-in> <cases-out> <impl-out> [isolate]
//	                                           execute histories on the real code in a scratch directory
//	                                           (os.MkdirTemp, removed afterwards); write the model's case
//	                                           file (histories + library oracles) and the observations;
//	                                           "isolate" empties the scratch directory after every history
//	                                           (variants of one history may then share a path)
//
// History file (tab separated, bytes in hex, "-" = empty):
//
//	H <id> <tag> <path>      path: "@" = scratch directory (absolute), "%" = its base name; relative paths are
//	                         relative to the scratch directory (the process chdir's into it, so bare names work)
//	D <rel> / T <rel>        create directory / regular file below the scratch directory before the history
//	S <key> <hash> <salt> <host> <mt>   loader.Store(session); file mtime := base + mt seconds (os.Chtimes)
//	L                        loader.Load()
//	F                        loader = session.NewFromFile(path)
//	C <k> <mt>               crash while writing: file := first k bytes of its content, mtime mt, new loader
//	X <content> <mt>         foreign write of arbitrary bytes, mtime mt, new loader
//	TR <k> <mt>              ANOTHER writer leaves the file cut to its first k bytes, mtime mt; the loader lives on
//	G <key> <hash> <salt> <host> <mt>   another loader (second session.NewFromFile on the path) stores a session,
//	                         mtime mt; the first loader lives on with its cache
//	N <host>                 mtproto.NewMTProto(Config{AuthKeyFile: path, ServerHost: host}) - no network involved
//	NS <host> <mt>           the same, then m.SaveSession(); new loader
//	M                        the caller scribbles over every *session.Session it passed to Store or got from Load so
//	                         far in this history (all bytes of Key and Hash, Salt, Hostname): aliasing probe
//	V <string>               only compares utf8.ValidString / what encoding/json makes of the string with the
//	                         model's utf8_valid / coerce_utf8
//	E                        end of history
//
// salt is 16 hex digits: the uint64 bit pattern, big-endian.
//
// Case file = the same lines with the concrete path plus, per history, the library oracles the model needs:
//
//	H <id> <tag> <path> <filepath.Dir(path)> <D|M|F>     (what os.Stat says about that directory)
//	J <b64 key> <b64 hash> <b64 salt> <host> <json>      json.Marshal of the four-string struct (mirror of
//	                                                     tokenStorageFormat, declared here)
//	U <content> ok <key> <hash> <salt> <host> | U <content> err    json.Unmarshal of a content some Load saw
//
// Observation lines (impl-out, and the model driver prints the same format):
//
//	<id> dir <dir>
//	<id> <opindex> S ok <file content> | S err | S panic
//	<id> <opindex> L ok <key> <hash> <salt> <host> | L nf | L err | L panic
//	<id> <opindex> N ok <0|1> <key> <hash> <salt> <addr> | N err | N panic        (NS: ... | S ...)
//	<id> <opindex> G ok <file content> | G err | G panic
//	<id> <opindex> V <0|1> <the string after encoding/json's coercion to valid UTF-8>
//	<id> <opindex> -
//
// Library assumptions of the theorems are validated on every stored session (lines "hyp ..." on stdout).
package main

import (
	"bufio"
	"bytes"
	"encoding/base64"
	"encoding/binary"
	"encoding/json"
	"fmt"
	"os"
	"path/filepath"
	"strconv"
	"strings"
	"time"
	"unicode/utf8"

	"github.com/xelaj/errs"
	"github.com/xelaj/mtproto"
	"github.com/xelaj/mtproto/internal/session"
	vc "verifcommon"
)

// mirror of internal/session.tokenStorageFormat (unexported there): the JSON library oracle
type mirror struct {
	Key      string `json:"key"`
	Hash     string `json:"hash"`
	Salt     string `json:"salt"`
	Hostname string `json:"hostname"`
}

type sess struct {
	key, hash []byte
	salt      uint64
	host      string
}

func (s sess) mirror() mirror {
	var b [8]byte
	binary.LittleEndian.PutUint64(b[:], s.salt)
	return mirror{
		Key:      base64.StdEncoding.EncodeToString(s.key),
		Hash:     base64.StdEncoding.EncodeToString(s.hash),
		Salt:     base64.StdEncoding.EncodeToString(b[:]),
		Hostname: s.host,
	}
}

func (s sess) render() []byte {
	d, err := json.Marshal(s.mirror())
	if err != nil {
		fatal("json.Marshal of mirror struct failed: %v", err)
	}
	return d
}

func saltHex(u uint64) string { return fmt.Sprintf("%016x", u) }

func fatal(f string, a ...interface{}) {
	fmt.Fprintf(os.Stderr, "c12 harness: "+f+"\n", a...)
	os.Exit(3)
}

// ---------------------------------------------------------------------------------------------
// generation

var saltCorners = []uint64{0, 1, 1 << 63, ^uint64(0), 1<<63 - 1, 255, 256, 1 << 32, 0xfffffffe, 0x0102030405060708, 0x8000000000000001}

var hostCorners = []string{
	"149.154.167.50:443", "", "1337.228.1488.0", "localhost", "[2001:b28:f23d:f001::a]:443",
	`a"b`, `back\slash`, `{"key":"x","hostname":"y"}`, "</script>&<tag>", `\u0041\n`, `"`, `\`, `\"`, "'", "a\\\"b\\",
	"line\nbreak\ttab\rret", "\x00", "nul\x00mid", "\x01\x02\x1f\x7f", "  spaced  ",
	"пример.рф:443", "例え.テスト", "🦊.example:443", "İstanbul", "e\u0301", "\u2028\u2029", "\ufffd", "\u00e9\u00ff", "\U0010ffff", "\ud7ff\ue000",
	"}", "{", "[]", ",", ":", "null", "true", "0",
}

var invalidUTF8 = []string{"\xff", "a\xc0\xaf", "\xed\xa0\x80", "\xf4\x90\x80\x80", "\xe2\x82", "\xc3", "\xf0\x9f\xa6", "ok\x80", "\xc1\xbf", "\xe0\x9f\xbf", "\xf0\x8f\xbf\xbf", "\xf5\x80\x80\x80"}

func randRune(r *vc.Rng) rune {
	for {
		var c rune
		switch r.Intn(8) {
		case 0, 1, 2:
			c = rune(32 + r.Intn(95))
		case 3:
			c = rune(r.Intn(32))
		case 4:
			c = rune(0x80 + r.Intn(0x780))
		case 5:
			c = rune(0x800 + r.Intn(0xf800))
		case 6:
			c = rune(0x10000 + r.Intn(0x100000))
		default:
			c = []rune{'"', '\\', '/', '{', '}', ':', ',', '<', '>', '&', 0x2028, 0x7f, 0xfffd, 0xd7ff, 0xe000, 0x10ffff}[r.Intn(16)]
		}
		if utf8.ValidRune(c) {
			return c
		}
	}
}

func randHost(r *vc.Rng) string {
	if r.Intn(40) == 0 {
		// not valid UTF-8: known finding store-load:hostname-invalid-utf8
		h := invalidUTF8[r.Intn(len(invalidUTF8))]
		if r.Intn(2) == 0 {
			h = "t" + h + "me:443"
		}
		return h
	}
	switch r.Intn(4) {
	case 0:
		return hostCorners[r.Intn(len(hostCorners))]
	case 1:
		return fmt.Sprintf("%d.%d.%d.%d:%d", r.Intn(256), r.Intn(256), r.Intn(256), r.Intn(256), r.Intn(65536))
	}
	n := r.Intn(24)
	if r.Intn(10) == 0 {
		n = 200 + r.Intn(200)
	}
	var b strings.Builder
	for i := 0; i < n; i++ {
		b.WriteRune(randRune(r))
	}
	return b.String()
}

func randBytes(r *vc.Rng, n int) []byte {
	switch r.Intn(8) {
	case 0:
		return make([]byte, n)
	case 1:
		return bytes.Repeat([]byte{0xff}, n)
	case 2:
		b := make([]byte, n)
		for i := range b {
			b[i] = byte(i)
		}
		return b
	case 3:
		al := []byte("\"\\{}:,/=+\n\x00 aZ09")
		b := make([]byte, n)
		for i := range b {
			b[i] = al[r.Intn(len(al))]
		}
		return b
	}
	return r.Bytes(n)
}

var keyLens = []int{0, 1, 2, 3, 4, 5, 16, 31, 32, 255, 256, 256, 256, 257, 1024}
var hashLens = []int{0, 1, 2, 3, 8, 8, 8, 20, 36}

func randSalt(r *vc.Rng) uint64 {
	if r.Intn(2) == 0 {
		return saltCorners[r.Intn(len(saltCorners))]
	}
	switch r.Intn(3) {
	case 0:
		return r.U64()
	case 1:
		return r.U64() >> uint(r.Intn(64))
	}
	return ^(r.U64() >> uint(r.Intn(64)))
}

func randSess(r *vc.Rng) sess {
	kl := keyLens[r.Intn(len(keyLens))]
	if r.Intn(6) == 0 {
		kl = r.Intn(600)
	}
	hl := hashLens[r.Intn(len(hashLens))]
	if r.Intn(6) == 0 {
		hl = r.Intn(64)
	}
	return sess{key: randBytes(r, kl), hash: randBytes(r, hl), salt: randSalt(r), host: randHost(r)}
}

type hist struct {
	id    int
	tag   string
	path  string
	setup [][2]string
	ops   [][]string
}

func (h *hist) write(o *vc.Out) {
	o.Line("H", strconv.Itoa(h.id), h.tag, vc.HexS(h.path))
	for _, s := range h.setup {
		o.Line(s[0], vc.HexS(s[1]))
	}
	for _, op := range h.ops {
		o.Line(op...)
	}
	o.Line("E")
}

func opS(s sess, mt int) []string {
	return []string{"S", vc.Hex(s.key), vc.Hex(s.hash), saltHex(s.salt), vc.HexS(s.host), strconv.Itoa(mt)}
}

func opG(s sess, mt int) []string {
	o := opS(s, mt)
	o[0] = "G"
	return o
}

const nShapes = 16

// path shapes; the directory of a history is h<id> below the scratch directory
func shape(id, k int) (tag, path string, setup [][2]string) {
	h := fmt.Sprintf("h%d", id)
	d := [][2]string{{"D", h}}
	switch k {
	case 0:
		return "abs", "@/" + h + "/s.json", d
	case 1:
		return "rel", h + "/s.json", d
	case 2:
		return "bare", fmt.Sprintf("s%d.json", id), nil
	case 3:
		return "dot-rel", "./" + h + "/s.json", d
	case 4:
		return "dotdot", h + "/sub/../s.json", [][2]string{{"D", h + "/sub"}}
	case 5:
		return "abs-doubleslash", "@/" + h + "//s.json", d
	case 6:
		return "dot-bare", fmt.Sprintf("./s%d.json", id), nil
	case 7:
		return "parent-rel", "../%/" + h + "/s.json", d
	case 8:
		return "abs-unicode-name", "@/" + h + "/sess ключ \"q\".json", d
	case 9:
		return "deep-rel", h + "/a/b/c/s.json", [][2]string{{"D", h + "/a/b/c"}}
	case 10:
		// the directory is a symbolic link to a directory (as /tmp is on some systems, or a data directory moved to
		// another volume): it exists and is a directory for everything that opens files below it
		return "symlinked-dir", "@/" + h + "/link/s.json", [][2]string{{"D", h + "/real"}, {"Y", h + "/link=real"}}
	case 11:
		return "missing-abs", "@/" + h + "/missing/s.json", d
	case 12:
		return "missing-rel", fmt.Sprintf("nodir%d/s.json", id), nil
	case 13:
		return "dir-is-file", "@/" + h + "/afile/s.json", [][2]string{{"D", h}, {"T", h + "/afile"}}
	case 14:
		return "dir-is-link-to-file", "@/" + h + "/flink/s.json", [][2]string{{"D", h}, {"T", h + "/afile"}, {"Y", h + "/flink=afile"}}
	default:
		return "dir-is-dangling-link", "@/" + h + "/dlink/s.json", [][2]string{{"D", h}, {"Y", h + "/dlink=nowhere"}}
	}
}

func goodShape(r *vc.Rng) int { return r.Intn(11) }

func extContent(r *vc.Rng, s sess) []byte {
	m := s.mirror()
	switch r.Intn(12) {
	case 0:
		return nil
	case 1:
		return []byte("not json at all")
	case 2:
		d, _ := json.MarshalIndent(m, "", "  ")
		return d
	case 3: // short salt: binary.LittleEndian.Uint64 on fewer than 8 bytes
		m.Salt = base64.StdEncoding.EncodeToString(r.Bytes(r.Intn(8)))
	case 4: // long salt: bytes past the eighth are ignored
		m.Salt = base64.StdEncoding.EncodeToString(r.Bytes(9 + r.Intn(8)))
	case 5:
		m.Key = "!!!!"
	case 6:
		m.Hash = "abc"
	case 7:
		m.Salt = "A==="
	case 8:
		return []byte(`{"key":1,"hash":"","salt":"AAAAAAAAAAA=","hostname":"h"}`)
	case 9:
		return []byte(`{"hostname":"only"}`)
	case 10:
		return []byte(`{"key":"AB==","hash":"QUI=","salt":"AAAAAAAAAAA=","hostname":"h","extra":[1,2]}` + "\n")
	default:
		d := s.render()
		return append(d, []byte(" \n")...)
	}
	d, _ := json.Marshal(m)
	return d
}

func gen(tier, out string) {
	seed := vc.Seed()
	r := vc.NewRng(seed ^ 0xc12)
	o := vc.Create(out)
	id := 0
	stat := map[string]int{}
	emit := func(h *hist) {
		h.write(o)
		stat["histories"]++
		parts := strings.SplitN(h.tag, "/", 2)
		kind := parts[0]
		if strings.HasPrefix(kind, "sweeptear") {
			kind = "sweep-foreign-tear"
		} else if strings.HasPrefix(kind, "sweep") {
			kind = "sweep"
		}
		stat["kind:"+kind]++
		stat["shape:"+parts[1]]++
		for _, op := range h.ops {
			stat["op:"+op[0]]++
		}
	}
	newH := func(tagPrefix string, k int) *hist {
		id++
		tag, p, setup := shape(id, k)
		return &hist{id: id, tag: tagPrefix + "/" + tag, path: p, setup: setup}
	}
	fixture := sess{key: []byte("some auth key"), hash: []byte("oooooh that's definitely a key hash!"), salt: 0, host: "1337.228.1488.0"}
	real1 := sess{key: vc.NewRng(7).Bytes(256), hash: vc.NewRng(8).Bytes(8), salt: 0x8877665544332211, host: "149.154.167.50:443"}
	real2 := real1
	real2.salt = 0x1122334455667788 // same size, other salt: what a salt rotation writes

	// ---- corpus: the smallest histories of each kind, every path shape ----
	for k := 0; k < nShapes; k++ {
		h := newH("corpus-store-load", k)
		h.ops = [][]string{opS(fixture, 1), {"L"}, {"F"}, {"L"}, {"N", vc.HexS("cfg.host:443")}}
		emit(h)
	}
	for k := 0; k < nShapes; k++ {
		h := newH("corpus-missing", k)
		h.ops = [][]string{{"L"}, {"N", vc.HexS("cfg.host:443")}}
		emit(h)
	}
	for k := 0; k < 10; k++ {
		// second store on the same modification-time tick, same loader, same file size
		h := newH("corpus-same-tick", k)
		h.ops = [][]string{opS(real1, 5), {"L"}, opS(real2, 5), {"L"}, {"F"}, {"L"}}
		emit(h)
		h = newH("corpus-same-tick-3", k)
		h.ops = [][]string{opS(fixture, 5), {"L"}, opS(real1, 5), {"L"}, opS(real2, 5), {"L"}, opS(fixture, 6), {"L"}}
		emit(h)
		h = newH("corpus-client-save", k)
		h.ops = [][]string{{"NS", vc.HexS("cfg.host:443"), "3"}, {"L"}, opS(real1, 3), {"L"}, {"NS", vc.HexS("other:1"), "3"}, {"L"}, {"N", vc.HexS("third:2")}}
		emit(h)
	}
	for k := 0; k < 10; k++ {
		// a long-lived loader and ANOTHER writer: torn file / complete foreign store, later and equal ticks
		h := newH("corpus-foreign-tear-newer", k)
		h.ops = [][]string{opS(real1, 5), {"L"}, {"TR", "200", "6"}, {"L"}, {"L"}, {"L"}, {"F"}, {"L"}, {"L"}, opS(real2, 6), {"L"}}
		emit(h)
		h = newH("corpus-foreign-tear-equal-tick", k)
		h.ops = [][]string{opS(real1, 5), {"L"}, {"TR", "17", "5"}, {"L"}, {"L"}, {"F"}, {"L"}}
		emit(h)
		h = newH("corpus-foreign-store-newer", k)
		h.ops = [][]string{opS(real1, 5), {"L"}, opG(real2, 6), {"L"}, {"L"}, {"F"}, {"L"}}
		emit(h)
		h = newH("corpus-foreign-store-equal-tick", k)
		h.ops = [][]string{opS(real1, 5), {"L"}, opG(real2, 5), {"L"}, {"F"}, {"L"}}
		emit(h)
		h = newH("corpus-foreign-mixed", k)
		h.ops = [][]string{opS(fixture, 5), {"L"}, opG(real1, 6), {"TR", "100", "7"}, {"L"}, {"L"}, opG(real2, 8), {"L"}, {"L"},
			{"TR", "0", "9"}, {"L"}, {"L"}, {"N", vc.HexS("cfg")}}
		emit(h)
		h = newH("corpus-foreign-first", k)
		h.ops = [][]string{{"TR", "3", "1"}, {"L"}, opG(fixture, 2), {"L"}, {"TR", "1", "3"}, {"L"}, {"L"}, {"F"}, {"L"}}
		emit(h)
	}
	for k := 0; k < 10; k++ {
		// modification times that go BACK (restore from a backup, cp -p, os.Chtimes): the code's test is equality
		h := newH("corpus-foreign-store-older", k)
		h.ops = [][]string{opS(real1, 5), {"L"}, opG(real2, 3), {"L"}, {"L"}, {"F"}, {"L"}}
		emit(h)
		h = newH("corpus-foreign-store-older-not-cached-time", k)
		h.ops = [][]string{opS(fixture, 5), opS(real1, 6), {"L"}, opG(real2, 5), {"L"}, {"L"}}
		emit(h)
		h = newH("corpus-foreign-tear-older", k)
		h.ops = [][]string{opS(real1, 5), {"L"}, {"TR", "100", "2"}, {"L"}, {"L"}, {"F"}, {"L"}}
		emit(h)
		// back to exactly the cached time: the stated limit of a cache keyed on the modification time
		h = newH("corpus-foreign-back-to-cached-time", k)
		h.ops = [][]string{opS(real1, 5), {"L"}, opG(fixture, 7), opG(real2, 5), {"L"}, {"L"}, {"F"}, {"L"}}
		emit(h)
		h = newH("corpus-foreign-back-and-forth", k)
		h.ops = [][]string{opS(real1, 5), {"L"}, opG(fixture, 7), {"L"}, opG(real2, 5), {"L"}, {"TR", "9", "7"}, {"L"}, opG(real1, 6), {"L"}}
		emit(h)
		// aliasing: the caller scribbles over what it passed to Store / got from Load
		h = newH("corpus-alias-load", k)
		h.ops = [][]string{opS(real1, 5), {"L"}, {"M"}, {"L"}, {"L"}, {"F"}, {"L"}, {"M"}, {"L"}}
		emit(h)
		h = newH("corpus-alias-store", k)
		h.ops = [][]string{opS(real1, 5), {"M"}, {"L"}, {"F"}, {"L"}}
		emit(h)
		h = newH("corpus-alias-store-same-tick", k)
		h.ops = [][]string{opS(real1, 5), {"L"}, opS(real2, 5), {"M"}, {"L"}, {"L"}, {"F"}, {"L"}}
		emit(h)
		h = newH("corpus-alias-foreign", k)
		h.ops = [][]string{opS(fixture, 5), {"L"}, opG(real2, 6), {"M"}, {"L"}, {"M"}, {"L"}, {"N", vc.HexS("cfg")}}
		emit(h)
	}
	for i, bad := range invalidUTF8 {
		// host names that are not valid UTF-8: known finding store-load:hostname-invalid-utf8
		for _, hs := range []string{bad, "t" + bad + "me:443"} {
			h := newH("corpus-invalid-utf8-host", goodShape(r))
			s := sess{key: randBytes(r, 16+i), hash: randBytes(r, 8), salt: randSalt(r), host: hs}
			h.ops = [][]string{opS(s, 1), {"L"}, {"F"}, {"L"}, {"N", vc.HexS("cfg")}, {"TR", "5", "2"}, {"L"}, opG(s, 3), {"L"}}
			emit(h)
		}
	}
	{
		h := newH("corpus-utf8", 0)
		for _, s := range hostCorners {
			h.ops = append(h.ops, []string{"V", vc.HexS(s)})
		}
		for _, s := range invalidUTF8 {
			h.ops = append(h.ops, []string{"V", vc.HexS(s)})
		}
		emit(h)
	}
	for i, sc := range saltCorners {
		for _, hc := range []string{hostCorners[i%len(hostCorners)], hostCorners[(i*7+5)%len(hostCorners)]} {
			h := newH("corpus-salts", goodShape(r))
			s := sess{key: randBytes(r, 256), hash: randBytes(r, 8), salt: sc, host: hc}
			h.ops = [][]string{opS(s, 1), {"L"}, {"F"}, {"L"}, {"N", vc.HexS("x")}}
			emit(h)
		}
	}
	for _, hc := range hostCorners {
		h := newH("corpus-hosts", goodShape(r))
		s := sess{key: randBytes(r, 3), hash: randBytes(r, 2), salt: randSalt(r), host: hc}
		h.ops = [][]string{opS(s, 1), {"L"}, {"F"}, {"L"}, {"N", vc.HexS("x")}}
		emit(h)
	}
	for _, kl := range []int{0, 1, 2, 3, 4, 5, 6, 255, 256, 257} {
		h := newH("corpus-keylens", goodShape(r))
		s := sess{key: r.Bytes(kl), hash: r.Bytes(kl % 7), salt: randSalt(r), host: "h"}
		h.ops = [][]string{opS(s, 1), {"L"}, {"F"}, {"L"}}
		emit(h)
	}

	// ---- every prefix length of a written file as a crash point ----
	sweeps := []sess{fixture, real1, {}, {key: []byte{0}, hash: []byte{1, 2}, salt: 1 << 63, host: "a\"b\\c пример 🦊\n"},
		{key: randBytes(r, 5), hash: randBytes(r, 4), salt: ^uint64(0), host: randHost(r)}, randSess(r)}
	nsweep := 0
	if tier == "thorough" {
		nsweep = 34
	}
	for i := 0; i < nsweep; i++ {
		sweeps = append(sweeps, randSess(r))
	}
	for i, s := range sweeps {
		n := len(s.render())
		stat["sweep-files"]++
		stat["sweep-bytes"] += n
		for k := 0; k < n; k++ {
			h := newH(fmt.Sprintf("sweep%d", i), (i+k)%10)
			mt2 := "7"
			if k%2 == 0 {
				mt2 = "8"
			}
			switch k % 3 {
			case 0:
				h.ops = [][]string{opS(s, 7), {"C", strconv.Itoa(k), mt2}, {"L"}, {"N", vc.HexS("cfg")}}
			case 1:
				h.ops = [][]string{opS(s, 7), {"L"}, {"C", strconv.Itoa(k), mt2}, {"L"}, {"L"}}
			default:
				h.ops = [][]string{opS(real2, 7), {"L"}, opS(s, 7), {"C", strconv.Itoa(k), mt2}, {"L"}, {"NS", vc.HexS("cfg"), "7"}, {"L"}}
			}
			emit(h)
			// the same cut made by ANOTHER writer while the loader lives on; repeated loads
			ks := strconv.Itoa(k)
			h = newH(fmt.Sprintf("sweeptear%d", i), (i+k+3)%10)
			switch k % 5 {
			case 4:
				h.ops = [][]string{opS(s, 7), {"L"}, {"TR", ks, "3"}, {"L"}, {"L"}, {"M"}, {"L"}, {"F"}, {"L"}}
			case 0:
				h.ops = [][]string{opS(s, 7), {"L"}, {"TR", ks, "8"}, {"L"}, {"L"}, {"L"}, {"F"}, {"L"}}
			case 1:
				h.ops = [][]string{opS(s, 7), {"L"}, {"TR", ks, "7"}, {"L"}, {"L"}, {"F"}, {"L"}, {"L"}}
			case 2:
				h.ops = [][]string{opS(real2, 7), {"L"}, opG(s, 8), {"L"}, {"TR", ks, "9"}, {"L"}, {"L"}, {"N", vc.HexS("cfg")}}
			default:
				h.ops = [][]string{opS(s, 7), {"TR", ks, "8"}, {"L"}, {"L"}, opS(s, 8), {"L"}}
			}
			emit(h)
		}
	}

	// ---- random histories ----
	nrand := 1500
	if tier == "thorough" {
		nrand = 25000
	}
	for i := 0; i < nrand; i++ {
		k := goodShape(r)
		if r.Intn(8) == 0 {
			k = 11 + r.Intn(5)
		}
		h := newH("random", k)
		pool := []sess{randSess(r), randSess(r)}
		same := pool[0]
		same.salt = randSalt(r) // same length on disk as pool[0]
		pool = append(pool, same)
		if r.Intn(3) == 0 {
			pool = append(pool, real1, real2)
		}
		mt := r.Intn(3)
		tick := func() string {
			switch x := r.Intn(20); {
			case x < 11:
			case x < 18:
				mt++
			default:
				mt += 5
			}
			return strconv.Itoa(mt)
		}
		// another writer's time: strictly later (half), same tick or later (quarter), EARLIER (quarter)
		foreignTime := func() string {
			switch r.Intn(4) {
			case 0:
				return tick()
			case 1:
				back := mt - 1 - r.Intn(3)
				if back < 0 {
					back = 0
				}
				return strconv.Itoa(back)
			}
			mt++
			return strconv.Itoa(mt)
		}
		curLen := 0
		nops := 2 + r.Intn(13)
		for j := 0; j < nops; j++ {
			switch x := r.Intn(100); {
			case x < 26:
				s := pool[r.Intn(len(pool))]
				curLen = len(s.render())
				h.ops = append(h.ops, opS(s, 0))
				h.ops[len(h.ops)-1][5] = tick()
			case x < 32:
				// another loader stores; two times out of three on a strictly later tick
				s := pool[r.Intn(len(pool))]
				curLen = len(s.render())
				h.ops = append(h.ops, opG(s, 0))
				h.ops[len(h.ops)-1][5] = foreignTime()
			case x < 38:
				// another writer leaves a cut file; the loader lives on
				kk := 0
				if curLen > 0 {
					kk = r.Intn(curLen)
				}
				curLen = kk
				h.ops = append(h.ops, []string{"TR", strconv.Itoa(kk), foreignTime()})
			case x < 64:
				h.ops = append(h.ops, []string{"L"})
			case x < 68:
				h.ops = append(h.ops, []string{"M"})
			case x < 74:
				h.ops = append(h.ops, []string{"F"})
			case x < 81:
				kk := 0
				if curLen > 0 {
					kk = r.Intn(curLen)
					if r.Intn(4) == 0 {
						kk = curLen - 1 - r.Intn(minInt(3, curLen))
					}
				}
				curLen = kk
				h.ops = append(h.ops, []string{"C", strconv.Itoa(kk), tick()})
			case x < 88:
				h.ops = append(h.ops, []string{"N", vc.HexS(randHost(r))})
			case x < 94:
				h.ops = append(h.ops, []string{"NS", vc.HexS(randHost(r)), tick()})
				curLen = 0
			default:
				c := extContent(r, pool[r.Intn(len(pool))])
				curLen = len(c)
				h.ops = append(h.ops, []string{"X", vc.Hex(c), tick()})
			}
		}
		emit(h)
	}
	o.Close()
	keys := make([]string, 0, len(stat))
	for k := range stat {
		keys = append(keys, k)
	}
	sortStrings(keys)
	for _, k := range keys {
		fmt.Printf("stat\t%s\t%d\n", k, stat[k])
	}
}

func minInt(a, b int) int {
	if a < b {
		return a
	}
	return b
}

func sortStrings(a []string) {
	for i := 1; i < len(a); i++ {
		for j := i; j > 0 && a[j] < a[j-1]; j-- {
			a[j], a[j-1] = a[j-1], a[j]
		}
	}
}

// ---------------------------------------------------------------------------------------------
// execution on the real code

var baseTime = time.Date(2020, 1, 1, 0, 0, 0, 0, time.UTC)

type runner struct {
	scratch string
	cases   *vc.Out
	impl    *vc.Out
	hyp     map[string]int
	seenHyp map[string]bool
}

func (rn *runner) subst(p string) string {
	p = strings.ReplaceAll(p, "%", filepath.Base(rn.scratch))
	if strings.HasPrefix(p, "@") {
		p = rn.scratch + p[1:]
	}
	return p
}

func (rn *runner) setMtime(path string, mt int) {
	t := baseTime.Add(time.Duration(mt) * time.Second)
	if err := os.Chtimes(path, t, t); err != nil {
		fatal("chtimes %s: %v", path, err)
	}
	fi, err := os.Stat(path)
	if err != nil || !fi.ModTime().Equal(t) {
		fatal("file system does not keep the modification time set with os.Chtimes (%v)", err)
	}
}

// validate, on the real libraries, what the theorems assume about them for this session
func (rn *runner) validate(s sess) {
	m := s.mirror()
	d := s.render()
	if rn.seenHyp[string(d)] {
		return
	}
	rn.seenHyp[string(d)] = true
	rn.hyp["sessions"]++
	for name, pair := range map[string][2]interface{}{"key": {m.Key, s.key}, "hash": {m.Hash, s.hash}} {
		b, err := base64.StdEncoding.DecodeString(pair[0].(string))
		if err != nil || !bytes.Equal(b, pair[1].([]byte)) {
			rn.hyp["FAIL:base64_rt:"+name]++
		}
		if !utf8.ValidString(pair[0].(string)) {
			rn.hyp["FAIL:base64_utf8:"+name]++
		}
	}
	// json_go_ok: what comes back is the mirror with its strings coerced (identity on valid UTF-8: json_ok)
	want := m
	want.Hostname = coerceGo(m.Hostname)
	var back mirror
	if err := json.Unmarshal(d, &back); err != nil || back != want {
		rn.hyp["FAIL:json_rt"]++
		fmt.Printf("hypfail\tjson_rt\t%s\n", vc.Hex(d))
	}
	for k := 0; k < len(d); k++ {
		var t mirror
		rn.hyp["prefixes"]++
		if err := json.Unmarshal(d[:k], &t); err == nil {
			rn.hyp["FAIL:json_prefix"]++
			fmt.Printf("hypfail\tjson_prefix\t%s\t%d\n", vc.Hex(d), k)
		}
	}
	if !utf8.ValidString(s.host) {
		rn.hyp["sessions-with-invalid-utf8-host(known finding store-load:hostname-invalid-utf8)"]++
	}
}

// coerceGo: what encoding/json does to a string when it marshals it (encodeState.string): every byte at
// which utf8.DecodeRuneInString reports (RuneError, 1) becomes U+FFFD. Written out here independently;
// validate() checks that json.Marshal + json.Unmarshal of the mirror struct gives exactly this.
func coerceGo(s string) string {
	var b strings.Builder
	for i := 0; i < len(s); {
		c, size := utf8.DecodeRuneInString(s[i:])
		if c == utf8.RuneError && size == 1 {
			b.WriteString("\ufffd")
			i++
			continue
		}
		b.WriteString(s[i : i+size])
		i += size
	}
	return b.String()
}

func vLine(s string) []string {
	return []string{"V", b2s(utf8.ValidString(s)), vc.HexS(coerceGo(s))}
}

func loadObs(l session.SessionLoader) (string, *session.Session) {
	var res string
	var got *session.Session
	p, _ := vc.Catch(func() {
		s, err := l.Load()
		got = s
		switch {
		case err == nil && s != nil:
			res = strings.Join([]string{"L", "ok", vc.Hex(s.Key), vc.Hex(s.Hash), saltHex(uint64(s.Salt)), vc.HexS(s.Hostname)}, "\t")
		case err == nil:
			res = "L\tok-nil"
		case errs.IsNotFound(err):
			res = "L\tnf"
		default:
			res = "L\terr"
		}
	})
	if p {
		return "L\tpanic", nil
	}
	return res, got
}

func readFileHex(path string) string {
	d, err := os.ReadFile(path)
	if err != nil {
		return "unreadable"
	}
	return vc.Hex(d)
}

func (rn *runner) uOracle(seen map[string]bool, lines *[][]string, path string) {
	d, err := os.ReadFile(path)
	if err != nil {
		return
	}
	if seen[string(d)] {
		return
	}
	seen[string(d)] = true
	var m mirror
	if err := json.Unmarshal(d, &m); err != nil {
		*lines = append(*lines, []string{"U", vc.Hex(d), "err"})
	} else {
		*lines = append(*lines, []string{"U", vc.Hex(d), "ok", vc.HexS(m.Key), vc.HexS(m.Hash), vc.HexS(m.Salt), vc.HexS(m.Hostname)})
	}
}

func jLine(s sess) []string {
	m := s.mirror()
	return []string{"J", vc.HexS(m.Key), vc.HexS(m.Hash), vc.HexS(m.Salt), vc.HexS(m.Hostname), vc.Hex(s.render())}
}

func parseSess(f []string) sess {
	u, err := strconv.ParseUint(f[3], 16, 64)
	if err != nil {
		fatal("bad salt %q", f[3])
	}
	return sess{key: vc.UnHex(f[1]), hash: vc.UnHex(f[2]), salt: u, host: string(vc.UnHex(f[4]))}
}

func atoi(s string) int {
	n, err := strconv.Atoi(s)
	if err != nil {
		fatal("bad number %q", s)
	}
	return n
}

func (rn *runner) runHistory(hd []string, setup [][]string, ops [][]string) {
	id := hd[1]
	path := rn.subst(string(vc.UnHex(hd[3])))
	for _, s := range setup {
		p := filepath.Join(rn.scratch, string(vc.UnHex(s[1])))
		if s[0] == "D" {
			if err := os.MkdirAll(p, 0o755); err != nil {
				fatal("mkdir: %v", err)
			}
		} else if s[0] == "Y" {
			i := strings.LastIndex(p, "=")
			os.Remove(p[:i])
			if err := os.Symlink(p[i+1:], p[:i]); err != nil {
				fatal("symlink: %v", err)
			}
		} else {
			if err := os.WriteFile(p, []byte("x"), 0o644); err != nil {
				fatal("touch: %v", err)
			}
		}
	}
	dir := filepath.Dir(path)
	kind := "M"
	if fi, err := os.Stat(dir); err == nil {
		if fi.IsDir() {
			kind = "D"
		} else {
			kind = "F"
		}
	}
	rn.impl.Line(id, "dir", vc.HexS(dir))
	var oracle [][]string
	seenU := map[string]bool{}
	seenJ := map[string]bool{}
	addJ := func(s sess) {
		l := jLine(s)
		k := strings.Join(l, "|")
		if !seenJ[k] {
			seenJ[k] = true
			oracle = append(oracle, l)
		}
	}
	l := session.NewFromFile(path)
	// every *session.Session that crossed the API in this history (passed to Store, returned by Load)
	var handed []*session.Session
	mkSession := func(s sess) *session.Session {
		v := &session.Session{Key: append([]byte{}, s.key...), Hash: append([]byte{}, s.hash...), Salt: int64(s.salt), Hostname: s.host}
		handed = append(handed, v)
		return v
	}
	for i, op := range ops {
		idx := strconv.Itoa(i)
		switch op[0] {
		case "S":
			s := parseSess(op)
			rn.validate(s)
			addJ(s)
			var err error
			p, _ := vc.Catch(func() {
				err = l.Store(mkSession(s))
			})
			switch {
			case p:
				rn.impl.Line(id, idx, "S", "panic")
			case err != nil:
				rn.impl.Line(id, idx, "S", "err")
			default:
				rn.impl.Line(id, idx, "S", "ok", readFileHex(path))
				rn.setMtime(path, atoi(op[5]))
			}
			rn.impl.Line(append([]string{id, idx + ".v"}, vLine(s.host)...)...)
		case "L":
			rn.uOracle(seenU, &oracle, path)
			o, got := loadObs(l)
			if got != nil {
				handed = append(handed, got)
			}
			rn.impl.Line(id, idx, o)
		case "M":
			// each struct and each backing array once (values may share memory: that is what is probed)
			seenS := map[*session.Session]bool{}
			seenB := map[*byte]bool{}
			flip := func(b []byte) {
				if len(b) == 0 || seenB[&b[0]] {
					return
				}
				seenB[&b[0]] = true
				for j := range b {
					b[j] ^= 0xff
				}
			}
			for _, v := range handed {
				if seenS[v] {
					continue
				}
				seenS[v] = true
				flip(v.Key)
				flip(v.Hash)
				v.Salt = ^v.Salt
				v.Hostname = "scribbled.by.the.caller"
			}
			// what was scribbled on now belongs to the past: later values are new ones
			handed = nil
			rn.impl.Line(id, idx, "-")
		case "F":
			l = session.NewFromFile(path)
			rn.impl.Line(id, idx, "-")
		case "C":
			if d, err := os.ReadFile(path); err == nil {
				k := atoi(op[1])
				if k > len(d) {
					k = len(d)
				}
				if err := os.WriteFile(path, d[:k], 0o600); err != nil {
					fatal("crash write: %v", err)
				}
				rn.setMtime(path, atoi(op[2]))
			}
			l = session.NewFromFile(path)
			rn.impl.Line(id, idx, "-")
		case "TR":
			if d, err := os.ReadFile(path); err == nil {
				k := atoi(op[1])
				if k > len(d) {
					k = len(d)
				}
				if err := os.WriteFile(path, d[:k], 0o600); err != nil {
					fatal("tear write: %v", err)
				}
				rn.setMtime(path, atoi(op[2]))
			}
			rn.impl.Line(id, idx, "-")
		case "G":
			s := parseSess(op)
			rn.validate(s)
			addJ(s)
			other := session.NewFromFile(path)
			var err error
			p, _ := vc.Catch(func() {
				err = other.Store(mkSession(s))
			})
			switch {
			case p:
				rn.impl.Line(id, idx, "G", "panic")
			case err != nil:
				rn.impl.Line(id, idx, "G", "err")
			default:
				rn.impl.Line(id, idx, "G", "ok", readFileHex(path))
				rn.setMtime(path, atoi(op[5]))
			}
			rn.impl.Line(append([]string{id, idx + ".v"}, vLine(s.host)...)...)
		case "X":
			if kind == "D" {
				if err := os.WriteFile(path, vc.UnHex(op[1]), 0o600); err != nil {
					fatal("foreign write: %v", err)
				}
				rn.setMtime(path, atoi(op[2]))
			}
			l = session.NewFromFile(path)
			rn.impl.Line(id, idx, "-")
		case "N", "NS":
			rn.uOracle(seenU, &oracle, path)
			host := string(vc.UnHex(op[1]))
			var m *mtproto.MTProto
			var err error
			p, _ := vc.Catch(func() {
				m, err = mtproto.NewMTProto(mtproto.Config{AuthKeyFile: path, ServerHost: host})
			})
			var nobs []string
			var cur sess
			switch {
			case p:
				nobs = []string{"N", "panic"}
			case err != nil:
				nobs = []string{"N", "err"}
			default:
				enc, key, hash, salt, addr := m.VerifSessionState()
				if !bytes.Equal(key, m.GetAuthKey()) || salt != m.GetServerSalt() {
					fatal("verif hook disagrees with the exported getters")
				}
				cur = sess{key: key, hash: hash, salt: uint64(salt), host: addr}
				nobs = []string{"N", "ok", b2s(enc), vc.Hex(key), vc.Hex(hash), saltHex(uint64(salt)), vc.HexS(addr)}
			}
			if op[0] == "N" {
				rn.impl.Line(append([]string{id, idx}, nobs...)...)
				break
			}
			sobs := []string{"S", "-"}
			if nobs[1] == "ok" {
				rn.validate(cur)
				addJ(cur)
				var serr error
				sp, _ := vc.Catch(func() { serr = m.SaveSession() })
				switch {
				case sp:
					sobs = []string{"S", "panic"}
				case serr != nil:
					sobs = []string{"S", "err"}
				default:
					sobs = []string{"S", "ok", readFileHex(path)}
					rn.setMtime(path, atoi(op[2]))
				}
			}
			l = session.NewFromFile(path)
			rn.impl.Line(append(append([]string{id, idx}, nobs...), append([]string{"|"}, sobs...)...)...)
		case "V":
			rn.impl.Line(append([]string{id, idx}, vLine(string(vc.UnHex(op[1])))...)...)
		default:
			fatal("unknown op %q", op[0])
		}
	}
	rn.cases.Line("H", id, hd[2], vc.HexS(path), vc.HexS(dir), kind)
	for _, o := range oracle {
		rn.cases.Line(o...)
	}
	for _, op := range ops {
		rn.cases.Line(op...)
	}
	rn.cases.Line("E")
}

func b2s(b bool) string {
	if b {
		return "1"
	}
	return "0"
}

func run(in, casesOut, implOut string, isolate bool) {
	scratch, err := os.MkdirTemp("", "mtproto-c12-*")
	if err != nil {
		fatal("mkdtemp: %v", err)
	}
	scratch, _ = filepath.EvalSymlinks(scratch)
	for _, bad := range []string{"/repo", "/verif"} {
		if scratch == bad || strings.HasPrefix(scratch, bad+"/") {
			fatal("scratch directory %s is inside %s", scratch, bad)
		}
	}
	casesAbs, _ := filepath.Abs(casesOut)
	implAbs, _ := filepath.Abs(implOut)
	inAbs, _ := filepath.Abs(in)
	old, _ := os.Getwd()
	// whatever the library puts into "the temp directory" lands on another file system than the session files
	foreign, restoreTmp := vc.ForeignTmp(scratch)
	cleanup := func() {
		os.Chdir(old)
		os.RemoveAll(scratch)
		restoreTmp()
	}
	if err := os.Chdir(scratch); err != nil {
		cleanup()
		fatal("chdir: %v", err)
	}
	rn := &runner{scratch: scratch, cases: vc.Create(casesAbs), impl: vc.Create(implAbs), hyp: map[string]int{}, seenHyp: map[string]bool{}}
	f, err := os.Open(inAbs)
	if err != nil {
		cleanup()
		fatal("open: %v", err)
	}
	sc := bufio.NewScanner(f)
	sc.Buffer(make([]byte, 1<<20), 1<<26)
	var hd []string
	var setup, ops [][]string
	n := 0
	func() {
		defer func() {
			if r := recover(); r != nil {
				cleanup()
				panic(r)
			}
		}()
		for sc.Scan() {
			line := sc.Text()
			if line == "" {
				continue
			}
			fs := strings.Split(line, "\t")
			switch fs[0] {
			case "H":
				hd, setup, ops = fs, nil, nil
			case "D", "T", "Y":
				setup = append(setup, fs)
			case "E":
				rn.runHistory(hd, setup, ops)
				n++
				// keep the scratch directory small
				if isolate || n%500 == 0 {
					ents, _ := os.ReadDir(scratch)
					for _, e := range ents {
						os.RemoveAll(filepath.Join(scratch, e.Name()))
					}
				}
			default:
				ops = append(ops, fs)
			}
		}
	}()
	f.Close()
	rn.cases.Close()
	rn.impl.Close()
	cleanup()
	if _, err := os.Stat(scratch); err == nil {
		fatal("scratch directory %s could not be removed", scratch)
	}
	keys := make([]string, 0, len(rn.hyp))
	for k := range rn.hyp {
		keys = append(keys, k)
	}
	sortStrings(keys)
	for _, k := range keys {
		fmt.Printf("hyp\t%s\t%d\n", k, rn.hyp[k])
	}
	fmt.Printf("ran\t%d\n", n)
	fmt.Printf("tmpdir-on-another-file-system\t%s\n", b2s(foreign != ""))
}

func main() {
	if len(os.Args) >= 4 && os.Args[1] == "gen" {
		gen(os.Args[2], os.Args[3])
		return
	}
	if len(os.Args) >= 5 && os.Args[1] == "run" {
		run(os.Args[2], os.Args[3], os.Args[4], len(os.Args) >= 6 && os.Args[5] == "isolate")
		return
	}
	fmt.Fprintln(os.Stderr, "usage: c12 gen <tier> <histories-out> | run <histories-in> <cases-out> <impl-out>")
	os.Exit(2)
}
