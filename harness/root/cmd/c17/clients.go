// H cases of the C17 harness: several clients alive in one process.
//
//	H id <ops> | <impl observations> | <oracle observations>
//
// ops (space separated, clients numbered by creation):
//
//	N               NewMTProto (in-memory session store, ServerHost verif-origin-<k>)
//	S<c>:<dcs>      client c .SetDCList(dcs)            dcs = id=hexaddr,... or "-"
//	P<c>:<msg>:<info>  the real tryToProcessErr on client c (Message hex, AdditionalInfo nil | i:n | s:hex)
//	T<c>            read client c's DC table (through the verif export)
//
// observations, one per op: n | s | <class>,<address afterwards> | P,<panic> | unsafe,<addr> |
// t:<number of entries>;<id=hexaddr for every id of -1..12 present>
//
// Every address that tryToProcessErr can reach is of the form verif-... without a port, so
// Reconnect fails in net.ResolveTCPAddr and never touches the network.  Clients that keep the
// default DC list (real addresses) are only asked to migrate to ids outside that list; before
// each call the harness reads the address the client would dial and refuses ("unsafe") if it
// could be resolved.
package main

import (
	"fmt"
	"sort"
	"strconv"
	"strings"

	"github.com/pkg/errors"
	"github.com/xelaj/errs"

	"github.com/xelaj/mtproto"
	"github.com/xelaj/mtproto/internal/session"
	vc "verifcommon"
)

type memStore struct{}

func (memStore) Load() (*session.Session, error) { return nil, errs.NotFound("session", "verif-memory") }
func (memStore) Store(*session.Session) error     { return nil }

func originOf(k int) string { return fmt.Sprintf("verif-origin-%d", k) }

func tableObs(n int, get func(int) (string, bool)) string {
	parts := []string{}
	for id := -1; id <= 12; id++ {
		if a, ok := get(id); ok {
			parts = append(parts, fmt.Sprintf("%d=%s", id, vc.HexS(a)))
		}
	}
	return fmt.Sprintf("t:%d;%s", n, strings.Join(parts, ","))
}

func dialable(addr string) bool { return !strings.HasPrefix(addr, "verif-") || strings.Contains(addr, ":") }

// runH executes a history on the real code.
func runH(ops []string) []string {
	var clients []*mtproto.MTProto
	var obs []string
	for _, op := range ops {
		var o string
		panicked, val := vc.Catch(func() {
			switch op[0] {
			case 'N':
				m, err := mtproto.NewMTProto(mtproto.Config{SessionStorage: memStore{}, ServerHost: originOf(len(clients))})
				if err != nil {
					panic("NewMTProto: " + err.Error())
				}
				clients = append(clients, m)
				o = "n"
			case 'S':
				p := strings.SplitN(op[1:], ":", 2)
				c, _ := strconv.Atoi(p[0])
				clients[c].SetDCList(parseDCs(p[1]))
				o = "s"
			case 'T':
				c, _ := strconv.Atoi(op[1:])
				t := clients[c].VerifClientDCList()
				o = tableObs(len(t), func(id int) (string, bool) { a, ok := t[id]; return a, ok })
			case 'P':
				p := strings.SplitN(op[1:], ":", 3)
				c, _ := strconv.Atoi(p[0])
				m := clients[c]
				msg := string(vc.UnHex(p[1]))
				info := parseInfo(p[2])
				if x, ok := info.(int); ok && msg == "PHONE_MIGRATE_X" {
					if a, found := m.VerifClientDCList()[x]; found && dialable(a) {
						o = "unsafe," + vc.HexS(a)
						return
					}
				}
				e := &mtproto.ErrResponseCode{Code: 303, Message: msg, Description: msg, AdditionalInfo: info}
				err := m.VerifClientProcessErr(e)
				cls := "switch"
				switch {
				case err == error(e):
					cls = "self"
				case err != nil && errors.Cause(err) == error(e):
					cls = "nodc"
				}
				o = cls + "," + vc.HexS(m.VerifClientAddr())
			default:
				panic("bad op " + op)
			}
		})
		if panicked {
			o = "P," + vc.HexS(fmt.Sprint(val))
		}
		obs = append(obs, o)
	}
	return obs
}

// oracleH: what the property says, written directly: every client owns a table that starts as
// the default list and receives only its own SetDCList entries; PHONE_MIGRATE_X with an int
// looks the id up there.  Independent of the Coq model.
func oracleH(ops []string, defaults map[int]string) []string {
	type cl struct {
		addr string
		t    map[int]string
	}
	var clients []*cl
	var obs []string
	for _, op := range ops {
		switch op[0] {
		case 'N':
			t := map[int]string{}
			for k, v := range defaults {
				t[k] = v
			}
			clients = append(clients, &cl{originOf(len(clients)), t})
			obs = append(obs, "n")
		case 'S':
			p := strings.SplitN(op[1:], ":", 2)
			c, _ := strconv.Atoi(p[0])
			for k, v := range parseDCs(p[1]) {
				clients[c].t[k] = v
			}
			obs = append(obs, "s")
		case 'T':
			c, _ := strconv.Atoi(op[1:])
			t := clients[c].t
			obs = append(obs, tableObs(len(t), func(id int) (string, bool) { a, ok := t[id]; return a, ok }))
		case 'P':
			p := strings.SplitN(op[1:], ":", 3)
			c, _ := strconv.Atoi(p[0])
			m := clients[c]
			x, isInt := parseInfo(p[2]).(int)
			cls := "self"
			if string(vc.UnHex(p[1])) == "PHONE_MIGRATE_X" && isInt {
				if a, ok := m.t[x]; ok {
					cls = "switch"
					m.addr = a
				} else {
					cls = "nodc"
				}
			}
			obs = append(obs, cls+","+vc.HexS(m.addr))
		}
	}
	return obs
}

// snapshotDefaults copies the default DC list before any client exists: the oracle must not
// look at a map the library might hand out to clients.
func snapshotDefaults() map[int]string {
	res := map[int]string{}
	for k, v := range mtproto.VerifDefaultDCList() {
		res[k] = v
	}
	return res
}

func (g *gen) emitH(ops []string, defaults map[int]string) {
	g.n++
	g.stat["H"]++
	g.stat["H-ops"] += len(ops)
	impl := runH(ops)
	for _, o := range impl {
		g.stat["H-obs:"+strings.SplitN(strings.SplitN(o, ",", 2)[0], ":", 2)[0]]++
	}
	g.out.Line("H", strconv.Itoa(g.n), strings.Join(ops, " "), strings.Join(impl, " "), strings.Join(oracleH(ops, defaults), " "))
}

func opP(c int, msg string, info string) string {
	return fmt.Sprintf("P%d:%s:%s", c, vc.HexS(msg), info)
}

// histories: 2-4 clients alive at once.  "configured" clients override every default id with
// their own unresolvable addresses right after creation; "fresh" clients keep the default list
// and are only asked about ids outside it.
func (g *gen) histories(n int) {
	defaults := snapshotDefaults()
	defIDs := make([]int, 0, len(defaults))
	for id := range defaults {
		defIDs = append(defIDs, id)
	}
	sort.Ints(defIDs)
	own := func(c int) string {
		m := map[int]string{}
		for _, id := range defIDs {
			m[id] = fmt.Sprintf("verif-c%d-dc%d", c, id)
		}
		return fmtDCs(m)
	}
	nonDefault := []int{}
	for id := -1; id <= 12; id++ {
		if _, ok := defaults[id]; !ok {
			nonDefault = append(nonDefault, id)
		}
	}
	pm := "PHONE_MIGRATE_X"
	// the scenario of the property text: A configures DCs 2 and 7 for itself; B (configured its
	// own way) and a client created later are not affected
	g.emitH([]string{"N", "N", "S1:" + own(1),
		"S0:" + fmtDCs(map[int]string{2: "verif-test-dc2", 7: "verif-test-dc7"}),
		opP(1, pm, "i:2"), opP(1, pm, "i:7"), "N", opP(2, pm, "i:7"), "T2", "T1", "T0",
		opP(0, pm, "i:7"), opP(0, pm, "i:2"), opP(0, pm, "i:9")}, defaults)
	g.emitH([]string{"N", "S0:" + fmtDCs(map[int]string{7: "verif-test-dc7"}), "N", "T1", opP(1, pm, "i:7"), opP(0, pm, "i:7")}, defaults)
	g.emitH([]string{"N", "N", "T0", "T1", "S1:" + fmtDCs(map[int]string{8: "verif-x-dc8"}), "T0", opP(0, pm, "i:8"), opP(1, pm, "i:8"), opP(1, pm, "nil"), opP(1, "FLOOD_WAIT_X", "i:8")}, defaults)
	for i := 0; i < n; i++ {
		var ops []string
		fresh := map[int]bool{}
		nc := 0
		newClient := func() {
			ops = append(ops, "N")
			if g.r.Intn(3) == 0 {
				fresh[nc] = true
			} else {
				ops = append(ops, fmt.Sprintf("S%d:%s", nc, own(nc)))
			}
			nc++
		}
		newClient()
		newClient()
		steps := 4 + g.r.Intn(12)
		for s := 0; s < steps; s++ {
			c := g.r.Intn(nc)
			switch k := g.r.Intn(10); {
			case k == 0 && nc < 4:
				newClient()
			case k <= 3 && !fresh[c]:
				m := map[int]string{}
				for j := 1 + g.r.Intn(3); j > 0; j-- {
					id := g.r.Intn(14) - 1
					m[id] = fmt.Sprintf("verif-c%d-dc%d-s%d", c, id, s)
				}
				ops = append(ops, fmt.Sprintf("S%d:%s", c, fmtDCs(m)))
			case k <= 7:
				id := nonDefault[g.r.Intn(len(nonDefault))]
				if !fresh[c] {
					id = g.r.Intn(14) - 1
				}
				ops = append(ops, opP(c, pm, "i:"+strconv.Itoa(id)))
			case k == 8:
				ops = append(ops, opP(c, g.r.Pick([]string{pm, "USER_MIGRATE_X", "FLOOD_WAIT_X", ""}), g.r.Pick([]string{"nil", "i:7", "s:" + vc.HexS("7")})))
			default:
				ops = append(ops, fmt.Sprintf("T%d", c))
			}
		}
		for c := 0; c < nc; c++ {
			ops = append(ops, fmt.Sprintf("T%d", c))
		}
		g.emitH(ops, defaults)
	}
}
