// Harness for property C17 (RPC errors: TryExpandError, RpcErrorToNative, tryToProcessErr).
//
//	tables <out>               dump specificErrors / errorMessages / defaultDCList of the tree
//	gen <tier> <cases-out>     generate cases, run the implementation, write the case file
//	one E <code> <hex-text>    run one error text, print its result fields
//	one M <dcs> <code> <hex>   run one migration case
//	one D <dcs> <hex-msg> <info>
//	one H <ops>                run one multi-client history (see clients.go), print observations and oracle
//
// Case file (tab separated; "-" is the empty string; bytes in hex):
//
//	#row  prefix suffix kind(0 int,1 string,2 other)      in table order
//	#msg  name description                                sorted by name
//	#dc   id address                                      sorted by id
//	E id code text | impl... | expect...
//	   impl   = P <panic text> - - - -    | ok <message> <info> <code> <description> <errtext>
//	   errtext = ok | lost:<hex> | injected:<hex>    does Error() carry the description verbatim, without fmt diagnostics around it
//	   info   = nil | i:<decimal> | s:<hex> | o:<Go type>
//	   expect = ? | plain | shape <message> <n>   | name <description> | spot <message> <info> <exact description or -> <keywords>
//	            (direct oracle, independent of the Coq model; spot = hand-typed table of well-known errors, independent of errorMessages)
//	F id format arg(i:<n> | s:<hex>) | <fmt.Sprintf output>                  (validates the model of the std-lib function)
//	M id dcs code text | impl = P <text> - | <class> <address afterwards> <errtext of the returned error>
//	D id dcs message info | same
//	   dcs    = id=hexaddr,id=hexaddr,... or "-"
//	   class  = self (the error itself returned) | nodc (error wrapping it returned, address unchanged)
//	          | switch (address changed; Reconnect attempted) | other
package main

import (
	"fmt"
	"math/big"
	"os"
	"regexp"
	"sort"
	"strconv"
	"strings"

	"github.com/pkg/errors"

	"github.com/xelaj/mtproto"
	"github.com/xelaj/mtproto/internal/mtproto/objects"
	vc "verifcommon"
)

const origin = "verif-origin" // no port: can never be dialled

// ---------------------------------------------------------------------------------------
// running the implementation

func infoStr(v interface{}) string {
	switch x := v.(type) {
	case nil:
		return "nil"
	case int:
		return "i:" + strconv.Itoa(x)
	case string:
		return "s:" + vc.HexS(x)
	default:
		return fmt.Sprintf("o:%T", v)
	}
}

// errText: is the text of an error free of formatting accidents?  The text must contain the
// description verbatim, and what is left around it must not carry fmt's own diagnostics
// (%!verb(...), (MISSING), (EXTRA ...)): an error text that went through Sprintf as a FORMAT would.
// Wording and layout of the text are not judged.
func errText(text, description string) string {
	i := strings.Index(text, description)
	if i < 0 {
		return "lost:" + vc.HexS(text)
	}
	rest := text[:i] + text[i+len(description):]
	if strings.Contains(rest, "%!") || strings.Contains(rest, "(MISSING)") || strings.Contains(rest, "(EXTRA ") {
		return "injected:" + vc.HexS(text)
	}
	return "ok"
}

// runE returns the impl fields of an E case.
func runE(code int32, text string) []string {
	var res []string
	panicked, val := vc.Catch(func() {
		name, data := mtproto.TryExpandError(text)
		err := mtproto.RpcErrorToNative(&objects.RpcError{ErrorCode: code, ErrorMessage: text})
		e, ok := err.(*mtproto.ErrResponseCode)
		if !ok {
			res = []string{"ok", "-", fmt.Sprintf("o:%T", err), "0", "-", "-"}
			return
		}
		if e.Message != name || infoStr(e.AdditionalInfo) != infoStr(data) {
			// the two entry points must tell the same story
			res = []string{"ok", vc.HexS(e.Message), "o:TryExpandError-differs:" + vc.HexS(name) + "/" + infoStr(data), strconv.Itoa(e.Code), vc.HexS(e.Description), "-"}
			return
		}
		res = []string{"ok", vc.HexS(e.Message), infoStr(e.AdditionalInfo), strconv.Itoa(e.Code), vc.HexS(e.Description), errText(e.Error(), e.Description)}
	})
	if panicked {
		return []string{"P", vc.HexS(fmt.Sprint(val)), "-", "-", "-", "-"}
	}
	return res
}

func parseDCs(s string) map[int]string {
	m := map[int]string{}
	if s == "-" || s == "" {
		return m
	}
	for _, kv := range strings.Split(s, ",") {
		p := strings.SplitN(kv, "=", 2)
		id, err := strconv.Atoi(p[0])
		if err != nil {
			panic("bad dc list: " + s)
		}
		m[id] = string(vc.UnHex(p[1]))
	}
	return m
}

func fmtDCs(m map[int]string) string {
	if len(m) == 0 {
		return "-"
	}
	ids := make([]int, 0, len(m))
	for k := range m {
		ids = append(ids, k)
	}
	sort.Ints(ids)
	parts := make([]string, 0, len(ids))
	for _, k := range ids {
		parts = append(parts, fmt.Sprintf("%d=%s", k, vc.HexS(m[k])))
	}
	return strings.Join(parts, ",")
}

func classify(e *mtproto.ErrResponseCode, addr string, err error) []string {
	et := "-"
	switch {
	case addr != origin:
		return []string{"switch", vc.HexS(addr), et}
	case err == error(e):
		return []string{"self", vc.HexS(addr), errText(err.Error(), e.Description)}
	case err != nil && errors.Cause(err) == error(e):
		return []string{"nodc", vc.HexS(addr), errText(err.Error(), e.Description)}
	default:
		return []string{"other", vc.HexS(addr), et}
	}
}

func runProcess(dcs map[int]string, e *mtproto.ErrResponseCode) []string {
	var res []string
	panicked, val := vc.Catch(func() {
		addr, err := mtproto.VerifTryToProcessErr(dcs, origin, e)
		res = classify(e, addr, err)
	})
	if panicked {
		return []string{"P", vc.HexS(fmt.Sprint(val)), "-"}
	}
	return res
}

// runM: RpcErrorToNative followed by the real tryToProcessErr, as makeRequest does.
func runM(dcs map[int]string, code int32, text string) []string {
	var e *mtproto.ErrResponseCode
	panicked, val := vc.Catch(func() {
		e = mtproto.RpcErrorToNative(&objects.RpcError{ErrorCode: code, ErrorMessage: text}).(*mtproto.ErrResponseCode)
	})
	if panicked {
		return []string{"P", vc.HexS(fmt.Sprint(val)), "-"}
	}
	return runProcess(dcs, e)
}

func parseInfo(s string) interface{} {
	switch {
	case s == "nil":
		return nil
	case strings.HasPrefix(s, "i:"):
		n, err := strconv.Atoi(s[2:])
		if err != nil {
			panic("bad info " + s)
		}
		return n
	case strings.HasPrefix(s, "s:"):
		return string(vc.UnHex(s[2:]))
	}
	panic("bad info " + s)
}

func runD(dcs map[int]string, msg string, info string) []string {
	e := &mtproto.ErrResponseCode{Code: 303, Message: msg, Description: msg, AdditionalInfo: parseInfo(info)}
	return runProcess(dcs, e)
}

// ---------------------------------------------------------------------------------------
// tables

type row struct {
	prefix, suffix string
	kind           int
}

func rows() []row {
	var res []row
	for _, r := range mtproto.VerifSpecificErrors() {
		k := 2
		switch r.Kind {
		case "int":
			k = 0
		case "string":
			k = 1
		}
		res = append(res, row{r.Prefix, r.Suffix, k})
	}
	return res
}

func sortedNames(m map[string]string) []string {
	ks := make([]string, 0, len(m))
	for k := range m {
		ks = append(ks, k)
	}
	sort.Strings(ks)
	return ks
}

func writeTables(out *vc.Out) {
	if strconv.IntSize != 64 {
		fmt.Fprintln(os.Stderr, "the model of strconv.Atoi assumes a 64-bit int")
		os.Exit(3)
	}
	for _, r := range rows() {
		out.Line("#row", vc.HexS(r.prefix), vc.HexS(r.suffix), strconv.Itoa(r.kind))
	}
	msgs := mtproto.VerifErrorMessages()
	for _, k := range sortedNames(msgs) {
		out.Line("#msg", vc.HexS(k), vc.HexS(msgs[k]))
	}
	dcs := mtproto.VerifDefaultDCList()
	ids := make([]int, 0, len(dcs))
	for k := range dcs {
		ids = append(ids, k)
	}
	sort.Ints(ids)
	for _, k := range ids {
		out.Line("#dc", strconv.Itoa(k), vc.HexS(dcs[k]))
	}
}

// ---------------------------------------------------------------------------------------
// generation

type gen struct {
	r    *vc.Rng
	out  *vc.Out
	n    int
	seen map[string]bool
	stat map[string]int
	rows []row
	msgs map[string]string
}

var numRe = regexp.MustCompile(`^[+-]?[0-9]+$`)

// oracleInt: what the documentation means by "a numeric parameter": an optionally signed
// decimal integer that fits the platform int.  Written with math/big, independently of
// strconv and of the Coq model.
func oracleInt(p string) (int64, bool) {
	if !numRe.MatchString(p) {
		return 0, false
	}
	v, ok := new(big.Int).SetString(strings.TrimPrefix(p, "+"), 10)
	if !ok || !v.IsInt64() {
		return 0, false
	}
	return v.Int64(), true
}

func (g *gen) matched(text string) bool {
	for _, r := range g.rows {
		if strings.HasPrefix(text, r.prefix) && strings.HasSuffix(text, r.suffix) {
			return true
		}
	}
	return false
}

func (g *gen) emitE(code int32, text string, expect []string, kind string) {
	key := fmt.Sprintf("E%d/%s", code, text)
	if g.seen[key] {
		return
	}
	g.seen[key] = true
	g.n++
	g.stat["E:"+kind]++
	impl := runE(code, text)
	g.stat["E-impl:"+impl[0]]++
	if g.matched(text) {
		g.stat["E-row-matched"]++
	}
	f := []string{"E", strconv.Itoa(g.n), strconv.Itoa(int(code)), vc.HexS(text)}
	f = append(f, impl...)
	f = append(f, expect...)
	g.out.Line(f...)
}

var unknown = []string{"?"}

func (g *gen) code() int32 {
	return []int32{303, 400, 401, 403, 404, 406, 420, 500, 0, -1, -503, 2147483647, -2147483648}[g.r.Intn(13)]
}

var params = []string{
	// integers
	"0", "1", "5", "7", "42", "86400", "-1", "-5", "-86400", "+5", "+0", "-0", "00", "007", "-007", "+007",
	"2147483647", "2147483648", "-2147483648", "-2147483649", "4294967296",
	"9223372036854775807", "9223372036854775808", "-9223372036854775808", "-9223372036854775809",
	"18446744073709551615", "18446744073709551616", "00000000000000000000000000000000000000001",
	"99999999999999999999999999999999999999999", "-99999999999999999999999999999999999999999",
	"0000000000000000000", "1000000000000000000", "999999999999999999",
	// absent / not a number
	"", "abc", "X", "x", "-", "+", "--5", "+-5", "-+5", "5-", "5+", " 5", "5 ", "5\n", "\t5", "1_000", "0x10", "1e3", "1.5", "5.", ".5",
	"12abc", "12_", "12X", "abc12", "1 2", "12\x00", "\x0012", "%d", "%v", "5%d", "%!d(int=5)", "%s%s%s%n", "%", "%%",
	"١٢", "１２", "²", "१", "1٠", "\xff", "\xc0\xaf", "Ⅷ",
	"5_MISSING", "5_CALL_ERROR", "5_CALL_RICH_ERROR", "_5", "5_", "NaN", "inf", "true", "nil",
}

func (g *gen) shapeExpect(r row, p string) []string {
	if r.kind != 0 {
		return unknown
	}
	if n, ok := oracleInt(p); ok {
		return []string{"shape", vc.HexS(r.prefix + "X" + r.suffix), strconv.FormatInt(n, 10)}
	}
	return []string{"plain"}
}

// every row x every parameter of the boundary list (+ random ints)
func (g *gen) rowsTimesParams(extra int) {
	for _, r := range g.rows {
		for _, p := range params {
			// a parameter that itself ends in another row's suffix may legitimately be read by that
			// other row; the direct oracle is only stated for the documented shape, so such
			// adversarial parameters get "?" and are judged by the model alone.
			exp := g.shapeExpect(r, p)
			if strings.Contains(p, "_MISSING") || strings.Contains(p, "_CALL_") {
				exp = unknown
			}
			g.emitE(g.code(), r.prefix+p+r.suffix, exp, "row-x-param")
		}
		for i := 0; i < extra; i++ {
			var p string
			switch g.r.Intn(4) {
			case 0:
				p = strconv.FormatInt(int64(g.r.U64()), 10)
			case 1:
				p = strconv.Itoa(g.r.Intn(100000))
			case 2:
				p = strconv.FormatUint(g.r.U64(), 10)
			case 3:
				p = new(big.Int).Lsh(big.NewInt(int64(g.r.U64()>>1)), uint(g.r.Intn(8))).String()
				if g.r.Bool() {
					p = "-" + p
				}
			}
			g.emitE(g.code(), r.prefix+p+r.suffix, g.shapeExpect(r, p), "row-x-random-int")
		}
	}
}

// texts around the table: truncated / overlapping / doubled / case-changed rows
func (g *gen) nearRows() {
	for _, r := range g.rows {
		full := r.prefix + "5" + r.suffix
		for i := 0; i <= len(full); i++ {
			g.emitE(g.code(), full[:i], unknown, "row-truncated")
			g.emitE(g.code(), full[i:], unknown, "row-tail")
		}
		if len(r.prefix) > 0 && len(r.suffix) > 0 {
			// HasPrefix and HasSuffix overlap on the shared byte
			if r.prefix[len(r.prefix)-1] == r.suffix[0] {
				g.emitE(g.code(), r.prefix+r.suffix[1:], []string{"plain"}, "row-overlap")
			}
		}
		g.emitE(g.code(), r.prefix+r.suffix, []string{"plain"}, "row-no-param")
		g.emitE(g.code(), r.prefix+"X"+r.suffix, []string{"plain"}, "row-literal-X")
		g.emitE(g.code(), strings.ToLower(full), unknown, "row-lowercase")
		g.emitE(g.code(), " "+full, unknown, "row-leading-space")
		g.emitE(g.code(), full+" ", unknown, "row-trailing-space")
		g.emitE(g.code(), full+full, unknown, "row-doubled")
		g.emitE(g.code(), r.prefix+"5"+r.suffix+r.suffix, unknown, "row-suffix-twice")
		g.emitE(g.code(), r.prefix+r.prefix+"5"+r.suffix, unknown, "row-prefix-twice")
		for _, q := range g.rows {
			// prefix of one row with the suffix of another, and one row inside another
			g.emitE(g.code(), r.prefix+"5"+q.suffix, unknown, "row-cross")
			g.emitE(g.code(), r.prefix+q.prefix+"5"+q.suffix+r.suffix, unknown, "row-nested")
		}
	}
}

func (g *gen) catalogue() {
	for _, k := range sortedNames(g.msgs) {
		exp := []string{"name", vc.HexS(g.msgs[k])}
		if g.matched(k) {
			exp = unknown // e.g. FLOOD_WAIT_X itself: judged as a row text
		}
		g.emitE(g.code(), k, exp, "catalogued-name")
		g.emitE(g.code(), k+"_5", unknown, "catalogued-name+_5")
		g.emitE(g.code(), strings.Replace(k, "_X", "_7", 1), unknown, "catalogued-name-X-to-7")
	}
}

// spot: well-known errors typed by hand from the public Telegram error lists (code, text as the
// server sends it) with the documented description - independent of errorMessages.  "exact" is
// given only where the wording is the one the public list (as known to the author of this
// harness) and needs no guess; otherwise only words any description of that error must contain.
type spotRow struct {
	code     int32
	text     string
	message  string // expected Message ("" = the text itself)
	info     string // expected AdditionalInfo
	exact    string
	keywords []string
}

var spotTable = []spotRow{
	{420, "FLOOD_WAIT_42", "FLOOD_WAIT_X", "i:42", "A wait of 42 seconds is required", []string{"wait", "42", "second"}},
	{303, "PHONE_MIGRATE_4", "PHONE_MIGRATE_X", "i:4", "The phone number a user is trying to use for authorization is associated with DC 4", []string{"phone", "DC 4"}},
	{303, "NETWORK_MIGRATE_3", "NETWORK_MIGRATE_X", "i:3", "The source IP address is associated with DC 3", []string{"IP", "DC 3"}},
	{303, "USER_MIGRATE_5", "USER_MIGRATE_X", "i:5", "The user whose identity is being used to execute queries is associated with DC 5", []string{"user", "DC 5"}},
	{303, "FILE_MIGRATE_1", "FILE_MIGRATE_X", "i:1", "The file to be accessed is currently stored in DC 1", []string{"file", "DC 1"}},
	{401, "SESSION_PASSWORD_NEEDED", "", "nil", "Two-steps verification is enabled and a password is required", []string{"password"}},
	{401, "AUTH_KEY_UNREGISTERED", "", "nil", "The key is not registered in the system", []string{"key", "not registered"}},
	{401, "USER_DEACTIVATED", "", "nil", "The user has been deleted/deactivated", []string{"user", "deactivated"}},
	{401, "SESSION_REVOKED", "", "nil", "The authorization has been invalidated, because of the user terminating all sessions", []string{"authorization", "session"}},
	{401, "SESSION_EXPIRED", "", "nil", "The authorization has expired", []string{"authorization", "expired"}},
	{400, "PHONE_CODE_EXPIRED", "", "nil", "The confirmation code has expired", []string{"code", "expired"}},
	{400, "PHONE_NUMBER_INVALID", "", "nil", "The phone number is invalid", []string{"phone number", "invalid"}},
	{400, "PHONE_NUMBER_OCCUPIED", "", "nil", "The phone number is already in use", []string{"phone number", "already"}},
	{400, "PASSWORD_HASH_INVALID", "", "nil", "The password (and thus its hash value) you entered is invalid", []string{"password", "invalid"}},
	{400, "USERNAME_OCCUPIED", "", "nil", "The username is already taken", []string{"username", "already"}},
	{400, "USERNAME_NOT_OCCUPIED", "", "nil", "The username is not in use by anyone else yet", []string{"username", "not"}},
	{400, "CHANNEL_PRIVATE", "", "nil", "The channel specified is private and you lack permission to access it. Another reason may be that you were banned from it", []string{"channel", "private"}},
	{400, "MESSAGE_NOT_MODIFIED", "", "nil", "Content of the message was not modified", []string{"message", "not modified"}},
	// wording differs between the public lists: words only
	{401, "AUTH_KEY_INVALID", "", "nil", "", []string{"key", "invalid"}},
	{400, "PHONE_CODE_INVALID", "", "nil", "", []string{"code", "invalid"}},
	{400, "PHONE_CODE_EMPTY", "", "nil", "", []string{"code"}},
	{400, "PHONE_NUMBER_BANNED", "", "nil", "", []string{"phone number", "banned"}},
	{400, "PHONE_NUMBER_UNOCCUPIED", "", "nil", "", []string{"number"}},
	{400, "API_ID_INVALID", "", "nil", "", []string{"api", "invalid"}},
	{400, "CHAT_ADMIN_REQUIRED", "", "nil", "", []string{"admin"}},
	{400, "PEER_ID_INVALID", "", "nil", "", []string{"peer", "invalid"}},
	{400, "USER_IS_BLOCKED", "", "nil", "", []string{"blocked"}},
	{403, "CHAT_WRITE_FORBIDDEN", "", "nil", "", []string{"write", "chat"}},
	{400, "FILE_PART_7_MISSING", "FILE_PART_X_MISSING", "i:7", "", []string{"part 7", "missing"}},
	{420, "SLOWMODE_WAIT_30", "SLOWMODE_WAIT_X", "i:30", "", []string{"wait", "30", "second"}},
}

func (g *gen) spot() {
	for _, r := range spotTable {
		msg := r.message
		if msg == "" {
			msg = r.text
		}
		exact := "-"
		if r.exact != "" {
			exact = vc.HexS(r.exact)
		}
		kw := make([]string, 0, len(r.keywords))
		for _, k := range r.keywords {
			kw = append(kw, vc.HexS(k))
		}
		g.emitE(r.code, r.text, []string{"spot", vc.HexS(msg), r.info, exact, strings.Join(kw, ",")}, "spot-oracle")
	}
}

// texts with formatting characters: unknown names, and names of rows
var pctTexts = []string{"%", "%d", "%s", "%v", "%%", "%!x", "%!d(MISSING)", "100% SURE", "ERR_%d_%s", "%s%s%s%s%s%s%s%s%n", "%[1]d", "%*d", "%-5d%",
	"FLOOD_WAIT_%d", "FLOOD_WAIT_%v", "PHONE_MIGRATE_%d", "FILE_PART_%d_MISSING", "INTERDC_%s_CALL_ERROR", "%d_FLOOD_WAIT_5", "FLOOD_WAIT_5%d",
	"ABOUT_TOO_LONG%d", "%(EXTRA int=5)", "%!(NOVERB)", "\x00%d", "%c%c%c", "%x", "%q", "%T", "%p", "%U", "%e", "%+v", "%#v"}

func (g *gen) percent() {
	for _, t := range pctTexts {
		for _, code := range []int32{400, 420, 303, 0, -1} {
			g.emitE(code, t, []string{"plain"}, "percent-text")
		}
	}
}

const soup = "%dvsX_-+ 0159AFLOW\x00\n!()[]#*."

func (g *gen) randomText() string {
	var sb strings.Builder
	switch g.r.Intn(6) {
	case 0:
		l := g.r.Intn(24)
		for j := 0; j < l; j++ {
			sb.WriteByte(soup[g.r.Intn(len(soup))])
		}
	case 1: // prefix of a table entry, then soup
		r := g.rows[g.r.Intn(len(g.rows))]
		sb.WriteString(r.prefix[:g.r.Intn(len(r.prefix)+1)])
		l := g.r.Intn(8)
		for j := 0; j < l; j++ {
			sb.WriteByte(soup[g.r.Intn(len(soup))])
		}
		if g.r.Bool() {
			sb.WriteString(r.suffix[g.r.Intn(len(r.suffix)+1):])
		}
	case 2: // whole row with soup parameter
		r := g.rows[g.r.Intn(len(g.rows))]
		sb.WriteString(r.prefix)
		l := g.r.Intn(6)
		for j := 0; j < l; j++ {
			sb.WriteByte(soup[g.r.Intn(len(soup))])
		}
		sb.WriteString(r.suffix)
	case 3: // formatting verbs
		verbs := []string{"%d", "%v", "%s", "%%", "%", "%!", "%5d", "%[2]d", "%*d", "%n", "%x", "%+v", "%#v", "%T", "%p", "%c", "%q", "%U", "%.3f"}
		l := 1 + g.r.Intn(4)
		for j := 0; j < l; j++ {
			if g.r.Bool() {
				sb.WriteString(g.r.Pick(verbs))
			} else {
				sb.WriteString(g.r.Pick([]string{"FLOOD_WAIT_", "A", "_", "5", " ", "ERROR", "X"}))
			}
		}
	case 4: // random bytes
		sb.Write(g.r.Bytes(g.r.Intn(12)))
	case 5: // mutated catalogue name
		ks := sortedNames(g.msgs)
		k := []byte(ks[g.r.Intn(len(ks))])
		if len(k) > 0 {
			switch g.r.Intn(3) {
			case 0:
				k[g.r.Intn(len(k))] = soup[g.r.Intn(len(soup))]
			case 1:
				k = k[:g.r.Intn(len(k))]
			case 2:
				k = append(k, soup[g.r.Intn(len(soup))])
			}
		}
		sb.Write(k)
	}
	return sb.String()
}

func (g *gen) random(n int) {
	for i := 0; i < n; i++ {
		g.emitE(g.code(), g.randomText(), unknown, "random")
	}
}

// fmt.Sprintf with one operand: validates the Gallina re-implementation of the std-lib function
func (g *gen) fmtCases(n int) {
	emit := func(f string, arg interface{}) {
		key := "F" + f + "/" + infoStr(arg)
		if g.seen[key] {
			return
		}
		g.seen[key] = true
		g.n++
		g.stat["F"]++
		g.out.Line("F", strconv.Itoa(g.n), vc.HexS(f), infoStr(arg), vc.HexS(fmt.Sprintf(f, arg)))
	}
	for _, k := range sortedNames(g.msgs) {
		emit(g.msgs[k], 5)
		emit(g.msgs[k], "abc")
	}
	alpha := []string{"%", "%", "v", "d", "s", "a", " ", "X", "%v", "%d", "%s", "%%", "!", "(", "5", "x", "+", "é"}
	for i := 0; i < n; i++ {
		var sb strings.Builder
		l := g.r.Intn(8)
		for j := 0; j < l; j++ {
			sb.WriteString(g.r.Pick(alpha))
		}
		if g.r.Bool() {
			emit(sb.String(), []int{0, 5, -5, 86400, 9223372036854775807, -9223372036854775808}[g.r.Intn(6)])
		} else {
			emit(sb.String(), g.r.Pick([]string{"", "abc", "%d", "5"}))
		}
	}
}

func fake(id int) string { return fmt.Sprintf("verif-dc-%d", id) }

func (g *gen) emitM(dcs map[int]string, code int32, text string) {
	g.n++
	g.stat["M"]++
	impl := runM(dcs, code, text)
	g.stat["M-impl:"+impl[0]]++
	f := []string{"M", strconv.Itoa(g.n), fmtDCs(dcs), strconv.Itoa(int(code)), vc.HexS(text)}
	g.out.Line(append(f, impl...)...)
}

func (g *gen) emitD(dcs map[int]string, msg, info string) {
	g.n++
	g.stat["D"]++
	impl := runD(dcs, msg, info)
	g.stat["D-impl:"+impl[0]]++
	f := []string{"D", strconv.Itoa(g.n), fmtDCs(dcs), vc.HexS(msg), info}
	g.out.Line(append(f, impl...)...)
}

// migration: configured and unconfigured data centres.  The DC tables handed to the client
// reuse the ids of defaultDCList (and others) with addresses that cannot be dialled.
func (g *gen) migrate(n int) {
	def := mtproto.VerifDefaultDCList()
	tables := []map[int]string{{}, {2: fake(2)}}
	t := map[int]string{}
	for id := range def {
		t[id] = fake(id)
	}
	tables = append(tables, t)
	tables = append(tables, map[int]string{0: fake(0), -1: fake(-1), 2147483648: fake(2147483648), 9223372036854775807: fake(9223372036854775807)})
	texts := []string{}
	for _, p := range params {
		texts = append(texts, "PHONE_MIGRATE_"+p)
	}
	for id := -2; id <= 12; id++ {
		texts = append(texts, "PHONE_MIGRATE_"+strconv.Itoa(id))
	}
	texts = append(texts, pctTexts...)
	texts = append(texts, "PHONE_MIGRATE_X", "PHONE_MIGRATE_", "PHONE_MIGRATE", "PHONE_MIGRATE_2 ", "phone_migrate_2",
		"PHONE_MIGRATE_9223372036854775807", "PHONE_MIGRATE_2147483648",
		"USER_MIGRATE_2", "NETWORK_MIGRATE_2", "FILE_MIGRATE_2", "STATS_MIGRATE_2", "FLOOD_WAIT_2", "FLOOD_WAIT_abc",
		"AUTH_KEY_UNREGISTERED", "", "%d", "INTERDC_2_CALL_ERROR")
	for _, tb := range tables {
		for _, tx := range texts {
			g.emitM(tb, 303, tx)
		}
	}
	for i := 0; i < n; i++ {
		tb := map[int]string{}
		for j := g.r.Intn(6); j > 0; j-- {
			id := g.r.Intn(8)
			tb[id] = fake(id)
		}
		var tx string
		if g.r.Intn(3) == 0 {
			tx = g.randomText()
		} else {
			tx = "PHONE_MIGRATE_" + strconv.Itoa(g.r.Intn(8))
		}
		g.emitM(tb, g.code(), tx)
	}
	// tryToProcessErr on hand-made errors: every dynamic type RpcErrorToNative can store
	for _, tb := range tables {
		for _, msg := range []string{"PHONE_MIGRATE_X", "PHONE_MIGRATE_2", "USER_MIGRATE_X", "", "FLOOD_WAIT_X"} {
			for _, info := range []string{"nil", "i:2", "i:0", "i:-1", "i:99", "i:9223372036854775807", "s:" + vc.HexS("2"), "s:-"} {
				g.emitD(tb, msg, info)
			}
		}
	}
}

func main() {
	if len(os.Args) < 2 {
		fmt.Fprintln(os.Stderr, "usage: tables|gen|one")
		os.Exit(2)
	}
	switch os.Args[1] {
	case "tables":
		out := vc.Create(os.Args[2])
		writeTables(out)
		out.Close()
	case "gen":
		tier, path := os.Args[2], os.Args[3]
		g := &gen{r: vc.NewRng(vc.Seed()), out: vc.Create(path), seen: map[string]bool{}, stat: map[string]int{},
			rows: rows(), msgs: mtproto.VerifErrorMessages()}
		writeTables(g.out)
		// corpus first: the inputs that failed on the pinned tree
		for _, t := range []string{"FLOOD_WAIT_abc", "PHONE_MIGRATE_", "PHONE_MIGRATE_X", "FLOOD_WAIT_9223372036854775808", "FILE_PART_MISSING", "INTERDC_2_CALL_RICH_ERROR", "INTERDC_2_CALL_ERROR"} {
			g.emitE(420, t, unknown, "corpus")
		}
		full := tier == "thorough"
		g.spot()
		g.percent()
		if full {
			g.rowsTimesParams(3000)
		} else {
			g.rowsTimesParams(12)
		}
		g.nearRows()
		g.catalogue()
		if full {
			g.random(500000)
			g.fmtCases(100000)
			g.migrate(30000)
			g.histories(20000)
		} else {
			g.random(1500)
			g.fmtCases(600)
			g.migrate(150)
			g.histories(300)
		}
		g.out.Close()
		ks := make([]string, 0, len(g.stat))
		for k := range g.stat {
			ks = append(ks, k)
		}
		sort.Strings(ks)
		for _, k := range ks {
			fmt.Printf("stat\t%s\t%d\n", k, g.stat[k])
		}
	case "one":
		switch os.Args[2] {
		case "E":
			code, _ := strconv.Atoi(os.Args[3])
			fmt.Println(strings.Join(runE(int32(code), string(vc.UnHex(os.Args[4]))), "\t"))
		case "M":
			code, _ := strconv.Atoi(os.Args[4])
			fmt.Println(strings.Join(runM(parseDCs(os.Args[3]), int32(code), string(vc.UnHex(os.Args[5]))), "\t"))
		case "D":
			fmt.Println(strings.Join(runD(parseDCs(os.Args[3]), string(vc.UnHex(os.Args[4])), os.Args[5]), "\t"))
		case "H":
			ops := strings.Fields(os.Args[3])
			defaults := snapshotDefaults()
			fmt.Println(strings.Join(runH(ops), " ") + "\t" + strings.Join(oracleH(ops, defaults), " "))
		}
	}
}
