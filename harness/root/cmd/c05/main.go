// Command c05 drives internal/aes_ige of the tree under test for property C05.
//
//	c05 gen <quick|thorough> <casefile>   generate cases (deterministic from VERIF_SEED), run the
//	                                      implementation on each, write one line per case
//	c05 one <kind> <a1> <a2> <a3> <a4> <a5>   run one case, print its result fields
//	c05 onew / seqw                       like one / seq, but every argument buffer is a window frame[off:off+n]
//	                                      of a larger array with non-zero guard bytes around and spare capacity
//	                                      behind; the whole arrays are compared after each call
//	c05 scan <repo root>                  static scan: every call site of the IGE loops passes a fresh output buffer
//	c05 seq <file>                        run the calls listed in <file> (kind a1..a5 per line) one after the
//	                                      other in this process, REUSING the same key / iv / input / output /
//	                                      message buffers and big.Int objects (values written in place between
//	                                      calls); print the result fields of every step
//
// Line format (tab separated, bytes in hex, "-" = empty):
//
//	id kind a1 a2 a3 a4 a5 class r1 r2 direct detail seq
//
// seq is "-" for a call made with freshly allocated arguments (len = cap), "w" for a call whose arguments are
// windows of larger live arrays (see onew), or "s<k>.<i>" for step i of call sequence k:
// the calls of one sequence share their argument buffers (same backing arrays, overwritten in place), so
// state that the package might carry from one call to the next, or aliasing of a caller's buffer kept by
// the package, shows up as a wrong result of a later step. Every step is still described by the VALUES its
// arguments hold when the call is made; model and direct oracle are evaluated on those values.
//
// class/r1/r2 is what the implementation did (class = ok | err | panic). "direct" is the verdict of
// the property's direct oracle on the implementation for this input, computed with an independent
// textbook IGE / MTProto key formula written here on top of crypto/aes and crypto/sha1:
// pass | fail | none; "detail" says what was expected. The same lines are fed to the extracted Coq
// model; lib/props/c05.py compares class/r1/r2.
package main

import (
	"bytes"
	"crypto/aes"
	"crypto/sha1"
	"fmt"
	"math/big"
	"os"
	"sort"
	"strconv"
	"strings"

	ige "github.com/xelaj/mtproto/internal/aes_ige"

	vc "verifcommon"
)

const fill = 0xAA

// ---------------------------------------------------------------------------------------------
// reference (the "conformant peer"): textbook IGE and the MTProto formulas

func xorBlock(a, b []byte) []byte {
	r := make([]byte, 16)
	for i := range r {
		r[i] = a[i] ^ b[i]
	}
	return r
}

// c_i = E(p_i xor c_{i-1}) xor p_{i-1};  c_0 = iv[:16], p_0 = iv[16:32]
func refIGE(key, iv, data []byte, decrypt bool) []byte {
	blk, err := aes.NewCipher(key)
	if err != nil {
		panic(err)
	}
	cprev := append([]byte{}, iv[:16]...)
	pprev := append([]byte{}, iv[16:32]...)
	out := make([]byte, 0, len(data))
	for i := 0; i+16 <= len(data); i += 16 {
		in := append([]byte{}, data[i:i+16]...)
		t := make([]byte, 16)
		if !decrypt {
			blk.Encrypt(t, xorBlock(in, cprev))
			c := xorBlock(t, pprev)
			out = append(out, c...)
			cprev, pprev = c, in
		} else {
			blk.Decrypt(t, xorBlock(in, pprev))
			p := xorBlock(t, cprev)
			out = append(out, p...)
			cprev, pprev = in, p
		}
	}
	return out
}

func sha(parts ...[]byte) []byte {
	h := sha1.New()
	for _, p := range parts {
		h.Write(p)
	}
	return h.Sum(nil)
}

// tmp_aes_key := SHA1(new_nonce + server_nonce) + substr(SHA1(server_nonce + new_nonce), 0, 12)
// tmp_aes_iv  := substr(SHA1(server_nonce + new_nonce), 12, 8) + SHA1(new_nonce + new_nonce) + substr(new_nonce, 0, 4)
func refTempKeys(newNonce, serverNonce []byte) (key, iv []byte) {
	h1 := sha(newNonce, serverNonce)
	h2 := sha(serverNonce, newNonce)
	h3 := sha(newNonce, newNonce)
	key = append(append([]byte{}, h1...), h2[:12]...)
	iv = append(append(append([]byte{}, h2[12:20]...), h3...), newNonce[:4]...)
	return
}

// MTProto 1.0 message key schedule, written from the specification (x = 0 client->server, 8 server->client):
//
//	sha1_a = SHA1(msg_key + substr(auth_key, x, 32))
//	sha1_b = SHA1(substr(auth_key, 32+x, 16) + msg_key + substr(auth_key, 48+x, 16))
//	sha1_c = SHA1(substr(auth_key, 64+x, 32) + msg_key)
//	sha1_d = SHA1(msg_key + substr(auth_key, 96+x, 32))
//	aes_key = substr(sha1_a, 0, 8) + substr(sha1_b, 8, 12) + substr(sha1_c, 4, 12)
//	aes_iv  = substr(sha1_a, 8, 12) + substr(sha1_b, 0, 8) + substr(sha1_c, 16, 4) + substr(sha1_d, 0, 8)
func refAESIGE(msgKey, authKey []byte, decode bool) (key, iv []byte) {
	x := 0
	if decode {
		x = 8
	}
	sub := func(b []byte, off, n int) []byte { return b[off : off+n] }
	a := sha(msgKey, sub(authKey, x, 32))
	b := sha(sub(authKey, 32+x, 16), msgKey, sub(authKey, 48+x, 16))
	c := sha(sub(authKey, 64+x, 32), msgKey)
	d := sha(msgKey, sub(authKey, 96+x, 32))
	key = append(append(append([]byte{}, sub(a, 0, 8)...), sub(b, 8, 12)...), sub(c, 4, 12)...)
	iv = append(append(append(append([]byte{}, sub(a, 8, 12)...), sub(b, 0, 8)...), sub(c, 16, 4)...), sub(d, 0, 8)...)
	return
}

// msg_key = substr(SHA1(plaintext), 4, 16)
func refMsgKey(msg []byte) []byte { return sha(msg)[4:20] }

// what TryDecryptMessageWithTempKeys must do with ANY ciphertext, from the specification: ok + payload iff the
// length is a positive multiple of 16, at least 20, and SHA1 of the body with 0..15 trailing bytes removed
// (fewest first) equals the first 20 decrypted bytes; an error otherwise; never a panic.
func refTryDecrypt(ct, newNonce, serverNonce []byte) (payload []byte, ok bool) {
	if len(ct) == 0 || len(ct)%16 != 0 {
		return nil, false
	}
	key, iv := refTempKeys(newNonce, serverNonce)
	pt := refIGE(key, iv, ct, true)
	if len(pt) < 20 {
		return nil, false
	}
	body := pt[20:]
	for cut := 0; cut <= 15 && cut <= len(body); cut++ {
		if bytes.Equal(sha(body[:len(body)-cut]), pt[:20]) {
			return body[:len(body)-cut], true
		}
	}
	return nil, false
}

// what a conformant peer sends for payload and padding
func peerEncrypt(payload, pad, newNonce, serverNonce []byte) []byte {
	key, iv := refTempKeys(newNonce, serverNonce)
	pt := append(append(append([]byte{}, sha(payload)...), payload...), pad...)
	return refIGE(key, iv, pt, false)
}

// ---------------------------------------------------------------------------------------------

type res struct {
	class  string
	r1, r2 []byte
	r2q    bool // r2 unknown ("?")
}

func (r res) fields() []string {
	r2 := vc.Hex(r.r2)
	if r.r2q {
		r2 = "?"
	}
	return []string{r.class, vc.Hex(r.r1), r2}
}

// session = the argument buffers of one call sequence. nil means: allocate fresh arguments for every call.
type session struct {
	bufs   map[string][]byte
	handed []handout         // plain buffers handed out for the current call
	nums   []*numrec         // big.Int objects of the caller (kept across the calls of a sequence)
	framed bool              // hand out windows frame[pre:pre+n] of larger arrays with guard bytes around
	frames map[string]*frame // framed: role/len -> frame
}

type handout struct {
	role string
	b    []byte
	snap []byte
}

// numrec = a *big.Int of the caller: the object, the value it must still have, and its word array
type numrec struct {
	role string
	n    *big.Int
	raw  []byte
	bits []big.Word
	used bool // handed to the package in the current call
}

// frame = a larger live buffer of the caller of which the package only gets a window
type frame struct {
	role string
	mem  []byte // whole backing array: guard | window | guard
	snap []byte // contents when the window was handed out
	pre  int
	n    int
}

const (
	guardPre  = 24
	guardPost = 56 // enough spare capacity behind the window for any padding the package might append
)

func newSession() *session {
	return &session{bufs: map[string][]byte{}, frames: map[string]*frame{}}
}

func newFramedSession() *session {
	s := newSession()
	s.framed = true
	return s
}

// buf returns a slice holding val. Plain: len = cap = len(val). Framed: a window of a larger array whose
// other bytes are non-zero guard bytes; the window keeps spare capacity behind it (cap > len), except for
// slices shorter than 16 bytes (the package slices iv[:16], which looks at the capacity; the model assumes
// len = cap there). In a sequence the array for a given role and length is always the same one,
// overwritten in place.
func (s *session) buf(role string, val []byte) []byte {
	if s == nil {
		return append(make([]byte, 0, len(val)), val...)
	}
	k := role + "/" + strconv.Itoa(len(val))
	if s.framed {
		f, ok := s.frames[k]
		if !ok {
			f = &frame{role: role, mem: make([]byte, guardPre+len(val)+guardPost), pre: guardPre, n: len(val)}
			for i := range f.mem {
				f.mem[i] = byte(0xC1+7*i) | 1 // never zero
			}
			s.frames[k] = f
		}
		copy(f.mem[f.pre:], val)
		f.snap = append(f.snap[:0], f.mem...)
		if len(val) < 16 {
			return f.mem[f.pre : f.pre+f.n : f.pre+f.n]
		}
		return f.mem[f.pre : f.pre+f.n]
	}
	b, ok := s.bufs[k]
	if !ok {
		b = make([]byte, len(val))
		s.bufs[k] = b
	}
	copy(b, val)
	s.handed = append(s.handed, handout{role, b, append([]byte{}, val...)})
	return b
}

// guards reports the first byte of any caller array that the package changed although it does not belong
// to a documented output: everything outside the window, and for every role but "out" the window too.
func (s *session) guards() string {
	if s == nil {
		return ""
	}
	// the *big.Int arguments: same value and same words as before the call (all objects of the sequence)
	for _, r := range s.nums {
		want := new(big.Int).SetBytes(r.raw)
		if r.n.Cmp(want) != 0 {
			return fmt.Sprintf("the caller's *big.Int passed as %q was modified in place: value was %x, is %x after the call", r.role, want, r.n)
		}
		if w := r.n.Bits(); len(w) != len(r.bits) {
			return fmt.Sprintf("the caller's *big.Int passed as %q was modified in place: %d words before, %d after the call", r.role, len(r.bits), len(w))
		} else {
			for i := range w {
				if w[i] != r.bits[i] {
					return fmt.Sprintf("the caller's *big.Int passed as %q was modified in place: word %d changed", r.role, i)
				}
			}
		}
	}
	for _, h := range s.handed {
		if h.role != "out" && !bytes.Equal(h.b, h.snap) {
			return fmt.Sprintf("the caller's %d-byte buffer passed as %q was modified", len(h.snap), h.role)
		}
	}
	if !s.framed {
		return ""
	}
	keys := make([]string, 0, len(s.frames))
	for k := range s.frames {
		keys = append(keys, k)
	}
	sort.Strings(keys)
	for _, k := range keys {
		f := s.frames[k]
		for i := range f.mem {
			inside := i >= f.pre && i < f.pre+f.n
			if inside && f.role == "out" {
				continue
			}
			if f.mem[i] != f.snap[i] {
				where := fmt.Sprintf("%d bytes behind the end of", i-(f.pre+f.n)+1)
				if inside {
					where = fmt.Sprintf("offset %d inside", i-f.pre)
				} else if i < f.pre {
					where = fmt.Sprintf("%d bytes before the start of", f.pre-i)
				}
				return fmt.Sprintf("the caller's memory was modified: %s the %d-byte slice passed as %q (a window of a larger live buffer, cap %d): byte %02x became %02x",
					where, f.n, f.role, cap(f.mem[f.pre:f.pre+f.n]), f.snap[i], f.mem[i])
			}
		}
	}
	return ""
}

// num returns the caller's *big.Int for a role. In a sequence it is the SAME object in every call; it is set
// (in place, SetBytes) only when the value differs from the one it already holds, so that a package which
// changed it during an earlier call is also seen through the results of the later calls. After every call
// value and word array of every object are compared with what the caller put there (guards).
func (s *session) num(role string, raw []byte) *big.Int {
	for _, r := range s.nums {
		if r.role == role {
			if !bytes.Equal(r.raw, raw) {
				r.n.SetBytes(raw)
				r.raw = append([]byte{}, raw...)
				r.bits = append([]big.Word{}, r.n.Bits()...)
			}
			return r.n
		}
	}
	n := new(big.Int).SetBytes(raw)
	s.nums = append(s.nums, &numrec{role: role, n: n, raw: append([]byte{}, raw...), bits: append([]big.Word{}, n.Bits()...)})
	return n
}

func classify(f func() ([]byte, []byte, error)) res {
	var r res
	var err error
	p, _ := vc.Catch(func() { r.r1, r.r2, err = f() })
	switch {
	case p:
		return res{class: "panic"}
	case err != nil:
		return res{class: "err"}
	}
	r.class = "ok"
	return r
}

// runCase runs the implementation; returns result, direct verdict, detail
func runCase(kind string, a [5]string, ss *session) (res, string, string) {
	if ss == nil {
		ss = newSession() // fresh arguments for this call only
	}
	ss.handed = ss.handed[:0]
	r, direct, detail := runCase0(kind, a, ss)
	if g := ss.guards(); g != "" && direct != "fail" {
		return r, "fail", g
	}
	return r, direct, detail
}

func runCase0(kind string, a [5]string, ss *session) (res, string, string) {
	switch kind {
	case "igeenc", "igedec":
		key, iv, data := vc.UnHex(a[0]), vc.UnHex(a[1]), vc.UnHex(a[2])
		outlen, _ := strconv.Atoi(a[3])
		fb, _ := strconv.ParseUint(a[4], 16, 8)
		out := ss.buf("out", bytes.Repeat([]byte{byte(fb)}, outlen))
		in := ss.buf("in", data)
		keyc := ss.buf("key", key)
		ivc := ss.buf("iv", iv)
		var err error
		p, _ := vc.Catch(func() {
			if kind == "igeenc" {
				err = ige.VerifDoAES256IGEencrypt(in, out, keyc, ivc)
			} else {
				err = ige.VerifDoAES256IGEdecrypt(in, out, keyc, ivc)
			}
		})
		r := res{class: "ok", r1: out, r2: in}
		if p {
			r.class = "panic"
		} else if err != nil {
			r.class = "err"
		}
		// direct oracle
		if !bytes.Equal(in, data) {
			return r, "fail", "the caller's input buffer was modified"
		}
		if !bytes.Equal(keyc, key) || !bytes.Equal(ivc, iv) {
			return r, "fail", "the caller's key/iv buffer was modified"
		}
		keyok := len(key) == 16 || len(key) == 24 || len(key) == 32
		if keyok && len(iv) == 32 {
			if len(data) == 0 || len(data)%16 != 0 {
				want := bytes.Repeat([]byte{byte(fb)}, outlen)
				if r.class != "err" || !bytes.Equal(out, want) {
					return r, "fail", "length 0 or not a multiple of 16 must be refused with an error and nothing written"
				}
				return r, "pass", ""
			}
			if outlen >= len(data) {
				want := append(refIGE(key, iv, data, kind == "igedec"), bytes.Repeat([]byte{byte(fb)}, outlen-len(data))...)
				if r.class != "ok" || !bytes.Equal(out, want) {
					first := 0
					for first < len(data) && first < len(out) && out[first] == want[first] {
						first++
					}
					return r, "fail", fmt.Sprintf("output differs from the IGE definition from block #%d of %d on (0-based, byte %d); expected ok %s",
						first/16, len(data)/16, first, vc.Hex(want))
				}
				return r, "pass", ""
			}
		}
		return r, "none", ""
	case "tk":
		n1, n2 := vc.UnHex(a[0]), vc.UnHex(a[1])
		r := classify(func() ([]byte, []byte, error) {
			k, iv := ige.VerifGenerateTempKeys(ss.num("n1", n1), ss.num("n2", n2))
			return k, iv, nil
		})
		if len(n1) == 32 && len(n2) == 16 {
			k, iv := refTempKeys(n1, n2)
			if r.class != "ok" || !bytes.Equal(r.r1, k) || !bytes.Equal(r.r2, iv) {
				return r, "fail", "expected ok key=" + vc.Hex(k) + " iv=" + vc.Hex(iv) + " (MTProto formula on the raw nonces)"
			}
			return r, "pass", ""
		}
		return r, "none", ""
	case "encraw":
		n1, n2, msg := vc.UnHex(a[0]), vc.UnHex(a[1]), vc.UnHex(a[2])
		r := classify(func() ([]byte, []byte, error) {
			return ige.VerifEncryptMessageWithTempKeysRaw(ss.buf("msg", msg), ss.num("n1", n1), ss.num("n2", n2)), nil, nil
		})
		if len(n1) == 32 && len(n2) == 16 && len(msg) > 0 && len(msg)%16 == 0 {
			k, iv := refTempKeys(n1, n2)
			want := refIGE(k, iv, msg, false)
			if r.class != "ok" || !bytes.Equal(r.r1, want) {
				return r, "fail", "expected ok " + vc.Hex(want)
			}
			return r, "pass", ""
		}
		return r, "none", ""
	case "enc":
		n1, n2, payload := vc.UnHex(a[0]), vc.UnHex(a[1]), vc.UnHex(a[2])
		r := classify(func() ([]byte, []byte, error) {
			return ige.EncryptMessageWithTempKeys(ss.buf("msg", payload), ss.num("n1", n1), ss.num("n2", n2)), nil, nil
		})
		r.r2q = true
		if len(n1) != 32 || len(n2) != 16 {
			return r, "none", ""
		}
		if r.class != "ok" {
			return r, "fail", "EncryptMessageWithTempKeys must succeed for every payload"
		}
		// what a conformant peer sees
		k, iv := refTempKeys(n1, n2)
		if len(r.r1) == 0 || len(r.r1)%16 != 0 {
			return r, "fail", "ciphertext length is not a positive multiple of 16"
		}
		pt := refIGE(k, iv, r.r1, true)
		want := append(append([]byte{}, sha(payload)...), payload...)
		if len(pt) < len(want) || !bytes.Equal(pt[:len(want)], want) {
			return r, "fail", "a conformant peer does not find SHA1(payload)+payload in the plaintext"
		}
		r.r2 = pt[len(want):]
		r.r2q = false
		// the client reads back what it produced
		var back []byte
		p, _ := vc.Catch(func() { back = ige.DecryptMessageWithTempKeys(ss.buf("ct", r.r1), ss.num("n1", n1), ss.num("n2", n2)) })
		if p {
			return r, "fail", fmt.Sprintf("DecryptMessageWithTempKeys panics on the client's own EncryptMessageWithTempKeys output (%d padding bytes)", len(r.r2))
		}
		if !bytes.Equal(back, payload) {
			return r, "fail", "DecryptMessageWithTempKeys(EncryptMessageWithTempKeys(p)) = " + vc.Hex(back) + ", not p"
		}
		if len(r.r2) > 15 {
			return r, "fail", fmt.Sprintf("%d padding bytes appended; MTProto allows 0..15", len(r.r2))
		}
		return r, "pass", ""
	case "dec":
		n1, n2, ct := vc.UnHex(a[0]), vc.UnHex(a[1]), vc.UnHex(a[2])
		r := classify(func() ([]byte, []byte, error) {
			return ige.DecryptMessageWithTempKeys(ss.buf("ct", ct), ss.num("n1", n1), ss.num("n2", n2)), nil, nil
		})
		if a[3] != "?" { // produced by the conformant peer from payload a[3]
			payload := vc.UnHex(a[3])
			if r.class != "ok" || !bytes.Equal(r.r1, payload) {
				return r, "fail", "expected ok " + vc.Hex(payload) + " (the payload a conformant peer encrypted, padding " + a[4] + ")"
			}
			return r, "pass", ""
		}
		return r, "none", ""
	case "trydec", "trydecbig":
		// the production entry (handshake.go, on bytes from the network): must never panic, whatever it is given
		n1, n2, ct := vc.UnHex(a[0]), vc.UnHex(a[1]), vc.UnHex(a[2])
		r := classify(func() ([]byte, []byte, error) {
			m, err := ige.TryDecryptMessageWithTempKeys(ss.buf("ct", ct), ss.num("n1", n1), ss.num("n2", n2))
			return m, nil, err
		})
		if r.class == "panic" {
			return r, "fail", "TryDecryptMessageWithTempKeys panicked; malformed input must be an error return (" + a[3] + ")"
		}
		if len(n1) == 32 && len(n2) == 16 {
			want, ok := refTryDecrypt(ct, n1, n2)
			if ok && (r.class != "ok" || !bytes.Equal(r.r1, want)) {
				return r, "fail", "expected ok " + vc.Hex(want) + " (SHA-1 prefix matches after removing 0..15 bytes; " + a[3] + ")"
			}
			if !ok && r.class != "err" {
				return r, "fail", "expected an error return: bad length or no cut of 0..15 bytes matches the SHA-1 prefix (" + a[3] + ")"
			}
			return r, "pass", ""
		}
		return r, "none", ""
	case "aesige":
		mk, ak := vc.UnHex(a[0]), vc.UnHex(a[1])
		r := classify(func() ([]byte, []byte, error) {
			k, iv := ige.VerifGenerateAESIGE(ss.buf("mkey", mk), ss.buf("akey", ak), a[2] == "1")
			return k, iv, nil
		})
		need := 128
		if a[2] == "1" {
			need = 136
		}
		if len(ak) >= need {
			k, iv := refAESIGE(mk, ak, a[2] == "1")
			if r.class != "ok" || !bytes.Equal(r.r1, k) || !bytes.Equal(r.r2, iv) {
				return r, "fail", "expected ok key=" + vc.Hex(k) + " iv=" + vc.Hex(iv) + " (MTProto 1.0 key schedule)"
			}
			return r, "pass", ""
		}
		return r, "none", ""
	case "msgenc":
		msg, key := vc.UnHex(a[0]), vc.UnHex(a[1])
		r := classify(func() ([]byte, []byte, error) {
			akey := ss.buf("akey", key)
			o, err := ige.Encrypt(ss.buf("msg", msg), akey)
			return o, nil, err
		})
		if len(key) >= 128 {
			if len(msg) == 0 {
				if r.class != "err" {
					return r, "fail", "empty message must be refused"
				}
				return r, "pass", ""
			}
			k, iv := refAESIGE(refMsgKey(msg), key, false) // independent of the package's own derivation
			padded := append(append([]byte{}, msg...), make([]byte, (16-len(msg)%16)%16)...)
			want := refIGE(k, iv, padded, false)
			if r.class != "ok" || !bytes.Equal(r.r1, want) {
				return r, "fail", "expected ok " + vc.Hex(want) + " (message zero-padded to the next multiple of 16)"
			}
			return r, "pass", ""
		}
		return r, "none", ""
	case "msgdec":
		ct, key, cd := vc.UnHex(a[0]), vc.UnHex(a[1]), vc.UnHex(a[2])
		r := classify(func() ([]byte, []byte, error) {
			akey := ss.buf("akey", key)
			o, err := ige.Decrypt(ss.buf("ct", ct), akey, ss.buf("mkey", cd))
			return o, nil, err
		})
		if len(key) >= 136 {
			if len(ct) == 0 || len(ct)%16 != 0 {
				if r.class != "err" {
					return r, "fail", "length 0 or not a multiple of 16 must be refused"
				}
				return r, "pass", ""
			}
			k, iv := refAESIGE(cd, key, true) // independent of the package's own derivation
			want := refIGE(k, iv, ct, true)
			if r.class != "ok" || !bytes.Equal(r.r1, want) {
				return r, "fail", "expected ok " + vc.Hex(want)
			}
			return r, "pass", ""
		}
		return r, "none", ""
	case "sha1":
		m := vc.UnHex(a[0])
		s := sha1.Sum(m)
		return res{class: "ok", r1: s[:]}, "none", ""
	}
	fmt.Fprintln(os.Stderr, "unknown kind", kind)
	os.Exit(3)
	return res{}, "", ""
}

// ---------------------------------------------------------------------------------------------

type gen struct {
	o       *vc.Out
	n       int
	stats   map[string]int
	order   []string
	sess    *session
	seqNo   int
	seqStep int
}

func (g *gen) add(kind string, a ...string) { g.addIn(nil, "-", kind, a...) }

// addW: the same call with every argument buffer a window of a larger live array (guard bytes around,
// spare capacity behind); the whole arrays are compared after the call
func (g *gen) addW(kind string, a ...string) {
	g.addIn(newFramedSession(), "w", kind, a...)
	g.stat("windowed_calls")
}

// both ways
func (g *gen) add2(kind string, a ...string) {
	g.add(kind, a...)
	g.addW(kind, a...)
}

// step adds one call of the current sequence
func (g *gen) step(kind string, a ...string) {
	g.seqStep++
	w := ""
	if g.sess.framed {
		w = "w"
	}
	g.addIn(g.sess, fmt.Sprintf("s%d%s.%d", g.seqNo, w, g.seqStep), kind, a...)
	g.stat("seq_calls")
}

func (g *gen) newSeq() {
	g.seqNo++
	g.seqStep = 0
	g.sess = newSession()
	g.stat("sequences")
}

// a sequence whose shared buffers are windows of larger arrays
func (g *gen) newSeqW() {
	g.newSeq()
	g.sess = newFramedSession()
}

func (g *gen) addIn(ss *session, tag string, kind string, a ...string) {
	var f [5]string
	for i := range f {
		f[i] = "-"
	}
	copy(f[:], a)
	r, direct, detail := runCase(kind, f, ss)
	g.n++
	line := []string{fmt.Sprintf("c%d", g.n), kind}
	line = append(line, f[:]...)
	line = append(line, r.fields()...)
	if detail == "" {
		detail = "-"
	}
	line = append(line, direct, strings.ReplaceAll(detail, "\t", " "), tag)
	g.o.Line(line...)
	g.stat(kind)
	g.stat("class_" + r.class)
}

func (g *gen) stat(k string) {
	if _, ok := g.stats[k]; !ok {
		g.order = append(g.order, k)
	}
	g.stats[k]++
}

// nonce with exactly lz leading zero bytes (and a non-zero byte after them when lz < n)
func nonce(r *vc.Rng, n, lz int) []byte {
	b := r.Bytes(n)
	for i := 0; i < lz && i < n; i++ {
		b[i] = 0
	}
	if lz < n && b[lz] == 0 {
		b[lz] = byte(1 + r.Intn(255))
	}
	return b
}

func rep(b byte, n int) []byte { return bytes.Repeat([]byte{b}, n) }

func main() {
	if len(os.Args) >= 8 && (os.Args[1] == "one" || os.Args[1] == "onew") {
		var f [5]string
		copy(f[:], os.Args[3:8])
		var one *session
		if os.Args[1] == "onew" {
			one = newFramedSession()
		}
		r, direct, detail := runCase(os.Args[2], f, one)
		fmt.Println(strings.Join(append(r.fields(), direct, detail), "\t"))
		return
	}
	if len(os.Args) == 3 && os.Args[1] == "scan" {
		os.Exit(scanAlias(os.Args[2]))
	}
	if len(os.Args) == 3 && (os.Args[1] == "seq" || os.Args[1] == "seqw") {
		data, err := os.ReadFile(os.Args[2])
		if err != nil {
			fmt.Fprintln(os.Stderr, err)
			os.Exit(3)
		}
		ss := newSession()
		if os.Args[1] == "seqw" {
			ss = newFramedSession()
		}
		for _, l := range strings.Split(strings.TrimSpace(string(data)), "\n") {
			fs := strings.Split(l, "\t")
			if len(fs) < 6 {
				continue
			}
			var f [5]string
			copy(f[:], fs[1:6])
			r, direct, detail := runCase(fs[0], f, ss)
			fmt.Println(strings.Join(append(r.fields(), direct, detail), "\t"))
		}
		return
	}
	if len(os.Args) != 4 || os.Args[1] != "gen" {
		fmt.Fprintln(os.Stderr, "usage: c05 gen <tier> <casefile> | c05 one|onew <kind> a1..a5 | c05 seq|seqw <file>")
		os.Exit(3)
	}
	thorough := os.Args[2] == "thorough"
	rng := vc.NewRng(vc.Seed())
	g := &gen{o: vc.Create(os.Args[3]), stats: map[string]int{}}
	fb := "aa"

	// --- the repository's own fixture and the OpenSSL IGE vectors first (corpus) ---
	g.add("igeenc", "000102030405060708090a0b0c0d0e0f", "000102030405060708090a0b0c0d0e0f101112131415161718191a1b1c1d1e1f",
		vc.Hex(make([]byte, 32)), "32", fb)
	g.add("igedec", "5468697320697320616e20696d706c65", "6d656e746174696f6e206f6620494745206d6f646520666f72204f70656e5353",
		"4c2e204c6574277320686f70652042656e20676f74206974207269676874210a", "32", fb)
	g.add("tk", "311c85db234aa2640afc4a76a735cf5b1f0fd68bd17fa181e1229ad867cc024d", "a5cf4d33f4a11ea877ba4aa573907330")
	// confirmed defects of the pinned tree: 12-byte payload; leading-zero nonces
	{
		r := rng.Fork(1)
		g.add("enc", vc.Hex(nonce(r, 32, 0)), vc.Hex(nonce(r, 16, 0)), vc.Hex(r.Bytes(12)))
		g.add("tk", vc.Hex(nonce(r, 32, 1)), vc.Hex(nonce(r, 16, 0)))
		g.add("tk", vc.Hex(nonce(r, 32, 29)), vc.Hex(nonce(r, 16, 0)))
		g.add("tk", vc.Hex(nonce(r, 32, 0)), vc.Hex(nonce(r, 16, 1)))
	}

	// --- SHA-1 and AES instances of the model against crypto/sha1 (tie of the primitives) ---
	{
		r := rng.Fork(2)
		for _, n := range []int{0, 1, 55, 56, 57, 63, 64, 65, 119, 120, 128, 1000} {
			g.add("sha1", vc.Hex(r.Bytes(n)))
		}
	}

	// --- IGE loops: block counts 1..64, random and degenerate keys/IVs ---
	{
		r := rng.Fork(3)
		maxb := 64
		for nb := 1; nb <= maxb; nb++ {
			key, iv, data := r.Bytes(32), r.Bytes(32), r.Bytes(16*nb)
			g.add("igeenc", vc.Hex(key), vc.Hex(iv), vc.Hex(data), strconv.Itoa(16*nb), fb)
			g.add("igedec", vc.Hex(key), vc.Hex(iv), vc.Hex(data), strconv.Itoa(16*nb), fb)
			if nb%4 == 1 || nb >= 62 {
				g.addW("igeenc", vc.Hex(key), vc.Hex(iv), vc.Hex(data), strconv.Itoa(16*nb), fb)
				g.addW("igedec", vc.Hex(key), vc.Hex(iv), vc.Hex(data), strconv.Itoa(16*nb), fb)
			}
		}
		// long inputs: block counts around powers of two / typical chunk sizes and beyond (chaining across
		// every block boundary, not only inside the first 64 blocks)
		long := []int{65, 127, 128, 129, 192, 255, 256, 257, 300}
		if thorough {
			long = append(long, 383, 384, 511, 512, 513, 640, 1023, 1024, 1025)
		}
		for _, nb := range long {
			key, iv, data := r.Bytes(32), r.Bytes(32), r.Bytes(16*nb)
			g.add("igeenc", vc.Hex(key), vc.Hex(iv), vc.Hex(data), strconv.Itoa(16*nb), fb)
			g.add("igedec", vc.Hex(key), vc.Hex(iv), vc.Hex(data), strconv.Itoa(16*nb), fb)
		}
		g.addW("igeenc", vc.Hex(r.Bytes(32)), vc.Hex(r.Bytes(32)), vc.Hex(r.Bytes(16*130)), strconv.Itoa(16*130), fb)
		g.addW("igedec", vc.Hex(r.Bytes(32)), vc.Hex(r.Bytes(32)), vc.Hex(r.Bytes(16*130)), strconv.Itoa(16*130), fb)
		deg := [][]byte{rep(0, 32), rep(0xff, 32)}
		nbs := []int{1, 2, 3, 5, 8, 16, 33, 64}
		if thorough {
			nbs = nil
			for nb := 1; nb <= 64; nb++ {
				nbs = append(nbs, nb)
			}
			nbs = append(nbs, 100, 257)
		}
		for _, nb := range nbs {
			for _, k := range deg {
				for _, iv := range deg {
					var data []byte
					switch r.Intn(3) {
					case 0:
						data = rep(0, 16*nb)
					case 1:
						data = rep(0xff, 16*nb)
					default:
						data = r.Bytes(16 * nb)
					}
					g.add("igeenc", vc.Hex(k), vc.Hex(iv), vc.Hex(data), strconv.Itoa(16*nb), fb)
					g.add("igedec", vc.Hex(k), vc.Hex(iv), vc.Hex(data), strconv.Itoa(16*nb), fb)
				}
			}
		}
		// AES-128 / AES-192 keys (NewCipher selects by key length)
		for _, kl := range []int{16, 24} {
			for _, nb := range []int{1, 2, 7} {
				g.add("igeenc", vc.Hex(r.Bytes(kl)), vc.Hex(r.Bytes(32)), vc.Hex(r.Bytes(16*nb)), strconv.Itoa(16*nb), fb)
				g.add("igedec", vc.Hex(r.Bytes(kl)), vc.Hex(r.Bytes(32)), vc.Hex(r.Bytes(16*nb)), strconv.Itoa(16*nb), fb)
			}
		}
		// every length 0..80 (all non-multiples of 16 are refused, nothing written)
		for n := 0; n <= 80; n++ {
			key, iv := r.Bytes(32), r.Bytes(32)
			g.add2("igeenc", vc.Hex(key), vc.Hex(iv), vc.Hex(r.Bytes(n)), strconv.Itoa(n), fb)
			g.add2("igedec", vc.Hex(key), vc.Hex(iv), vc.Hex(r.Bytes(n)), strconv.Itoa(n), fb)
		}
		// output buffer shorter / longer than the input; bad key sizes; short / long iv
		for _, ol := range []int{0, 8, 16, 20, 32, 47, 48, 55, 64} {
			g.add2("igeenc", vc.Hex(r.Bytes(32)), vc.Hex(r.Bytes(32)), vc.Hex(r.Bytes(48)), strconv.Itoa(ol), fb)
			g.add2("igedec", vc.Hex(r.Bytes(32)), vc.Hex(r.Bytes(32)), vc.Hex(r.Bytes(48)), strconv.Itoa(ol), fb)
		}
		for _, kl := range []int{0, 15, 17, 31, 33, 64} {
			g.add2("igeenc", vc.Hex(r.Bytes(kl)), vc.Hex(r.Bytes(32)), vc.Hex(r.Bytes(32)), "32", fb)
			g.add2("igedec", vc.Hex(r.Bytes(kl)), vc.Hex(r.Bytes(32)), vc.Hex(r.Bytes(20)), "20", fb)
		}
		for _, il := range []int{0, 15, 16, 17, 31, 33, 48} {
			g.add2("igeenc", vc.Hex(r.Bytes(32)), vc.Hex(r.Bytes(il)), vc.Hex(r.Bytes(32)), "32", fb)
			g.add2("igedec", vc.Hex(r.Bytes(32)), vc.Hex(r.Bytes(il)), vc.Hex(r.Bytes(32)), "32", fb)
		}
		if thorough {
			for i := 0; i < 300; i++ {
				nb := 1 + r.Intn(64)
				g.add("igeenc", vc.Hex(r.Bytes(32)), vc.Hex(r.Bytes(32)), vc.Hex(r.Bytes(16*nb)), strconv.Itoa(16*nb+r.Intn(3)*5), fb)
				g.add("igedec", vc.Hex(r.Bytes(32)), vc.Hex(r.Bytes(32)), vc.Hex(r.Bytes(16*nb)), strconv.Itoa(16*nb+r.Intn(3)*5), fb)
			}
		}
	}

	// --- temp keys: nonces with 0/1/2/29.. leading zero bytes, zero, oversize ---
	lz2 := []int{0, 1, 2, 29}
	lzs := []int{0, 1, 2, 13}
	{
		r := rng.Fork(4)
		for _, a := range []int{0, 1, 2, 3, 28, 29, 30, 31, 32} {
			for _, b := range []int{0, 1, 2, 13, 15, 16} {
				g.add("tk", vc.Hex(nonce(r, 32, a)), vc.Hex(nonce(r, 16, b)))
			}
		}
		reps := 20
		if thorough {
			reps = 400
		}
		for i := 0; i < reps; i++ {
			g.add("tk", vc.Hex(nonce(r, 32, lz2[r.Intn(4)])), vc.Hex(nonce(r, 16, lzs[r.Intn(4)])))
		}
		// values that do not fit (the repository's own test passes a 32-byte server nonce)
		g.add("tk", vc.Hex(nonce(r, 33, 0)), vc.Hex(nonce(r, 16, 0)))
		g.add("tk", vc.Hex(nonce(r, 32, 0)), vc.Hex(nonce(r, 32, 0)))
		g.add("tk", vc.Hex(nonce(r, 40, 0)), vc.Hex(nonce(r, 17, 0)))
		g.add("encraw", "f011280887c7bb01df0fc4e17830e0b91fbb8be4b2267cb985ae25f33b527253",
			"f011280887c7bb01df0fc4e17830e0b91fbb8be4b2267cb985ae25f33b527253",
			"f78af98ef9d401e298f3eeec1c927312aeb6b4125103bc5cc44bcdf0a15e160d445066ff000000000000000000000000")
		for _, n := range []int{0, 5, 16, 32, 33, 48, 160} {
			g.add2("encraw", vc.Hex(nonce(r, 32, lz2[r.Intn(4)])), vc.Hex(nonce(r, 16, lzs[r.Intn(4)])), vc.Hex(r.Bytes(n)))
		}
	}

	// --- key-exchange wrapper: payload lengths 0..80 (every residue of (20+len) mod 16) ---
	{
		r := rng.Fork(5)
		maxl := 80
		rounds := 1
		if thorough {
			maxl = 400
			rounds = 3
		}
		for round := 0; round < rounds; round++ {
			for n := 0; n <= maxl; n++ {
				a, b := lz2[(n+round)%4], lzs[(n/4+round)%4]
				if n%3 == 0 {
					a, b = 0, 0
				}
				n1, n2 := nonce(r, 32, a), nonce(r, 16, b)
				payload := r.Bytes(n)
				// the client's own encryption (random padding), read back by a peer and by the client
				g.add("enc", vc.Hex(n1), vc.Hex(n2), vc.Hex(payload))
				if n%2 == 1 || n == 12 {
					g.addW("enc", vc.Hex(n1), vc.Hex(n2), vc.Hex(payload))
				}
				// what a conformant peer produces: the one padding length 0..15 that aligns
				pl := (16 - (20+n)%16) % 16
				ct := peerEncrypt(payload, r.Bytes(pl), n1, n2)
				g.add("dec", vc.Hex(n1), vc.Hex(n2), vc.Hex(ct), vc.Hex(payload), strconv.Itoa(pl))
				if n%2 == 0 {
					g.addW("dec", vc.Hex(n1), vc.Hex(n2), vc.Hex(ct), vc.Hex(payload), strconv.Itoa(pl))
				}
				if payload2 := r.Bytes(n); n%5 == 0 { // zero padding / 0xff padding
					g.add("dec", vc.Hex(n1), vc.Hex(n2), vc.Hex(peerEncrypt(payload2, rep(byte(0xff*(n/5%2)), pl), n1, n2)), vc.Hex(payload2), strconv.Itoa(pl))
				}
			}
		}
		// long payloads: 20+len crosses 128 blocks (2048 bytes) and more
		for _, n := range []int{2027, 2028, 2029, 2043, 2044, 2045, 3000, 4076} {
			n1, n2 := nonce(r, 32, 0), nonce(r, 16, 0)
			payload := r.Bytes(n)
			g.add("enc", vc.Hex(n1), vc.Hex(n2), vc.Hex(payload))
			pl := (16 - (20+n)%16) % 16
			g.add("dec", vc.Hex(n1), vc.Hex(n2), vc.Hex(peerEncrypt(payload, r.Bytes(pl), n1, n2)), vc.Hex(payload), strconv.Itoa(pl))
		}
		g.addW("enc", vc.Hex(nonce(r, 32, 1)), vc.Hex(nonce(r, 16, 0)), vc.Hex(r.Bytes(2100)))
		// ciphertexts no peer produces: the client may panic (check(err) / "couldn't trim"), the model must agree on the class
		for _, n := range []int{0, 7, 16, 17, 32, 48, 64} {
			g.add("dec", vc.Hex(nonce(r, 32, 0)), vc.Hex(nonce(r, 16, 0)), vc.Hex(r.Bytes(n)), "?", "-")
		}
	}

	// --- message level: generateAESIGE, Encrypt (zero padding), Decrypt ---
	{
		r := rng.Fork(6)
		for _, kl := range []int{0, 127, 128, 135, 136, 256} {
			for _, d := range []string{"0", "1"} {
				g.add("aesige", vc.Hex(r.Bytes(16)), vc.Hex(r.Bytes(kl)), d)
			}
		}
		g.add("aesige", "-", vc.Hex(r.Bytes(256)), "0")
		g.add("aesige", vc.Hex(r.Bytes(20)), vc.Hex(r.Bytes(256)), "1")
		key := r.Bytes(256)
		maxl := 80
		if thorough {
			maxl = 300
		}
		for n := 0; n <= maxl; n++ {
			g.add2("msgenc", vc.Hex(r.Bytes(n)), vc.Hex(key))
			g.add2("msgdec", vc.Hex(r.Bytes(n)), vc.Hex(key), vc.Hex(r.Bytes(16)))
		}
		for _, n := range []int{2032, 2040, 2048, 2049, 2064, 4100} {
			g.add2("msgenc", vc.Hex(r.Bytes(n)), vc.Hex(key))
			g.add("msgdec", vc.Hex(r.Bytes(n)), vc.Hex(key), vc.Hex(r.Bytes(16)))
		}
		for _, d := range []string{"0", "1"} {
			g.addW("aesige", vc.Hex(r.Bytes(16)), vc.Hex(r.Bytes(256)), d)
		}
		g.add("msgenc", vc.Hex(r.Bytes(20)), vc.Hex(r.Bytes(100)))
		g.add("msgdec", vc.Hex(r.Bytes(32)), vc.Hex(r.Bytes(130)), vc.Hex(r.Bytes(16)))
		g.add("msgenc", "68656c6c6f20776f726c6421", vc.Hex(key))
	}

	// --- TryDecryptMessageWithTempKeys (the handshake's entry for bytes from the network): anything goes in ---
	{
		r := rng.Fork(8)
		H := vc.Hex
		n1, n2 := nonce(r, 32, 0), nonce(r, 16, 0)
		key, iv := refTempKeys(n1, n2)
		for n := 0; n <= 40; n++ {
			payload := r.Bytes(n)
			pl := (16 - (20+n)%16) % 16
			g.add2("trydec", H(n1), H(n2), H(peerEncrypt(payload, r.Bytes(pl), n1, n2)), fmt.Sprintf("valid peer ciphertext, payload %d bytes, padding %d", n, pl))
		}
		for n := 0; n <= 48; n++ {
			g.add("trydec", H(n1), H(n2), H(r.Bytes(n)), fmt.Sprintf("%d random bytes", n))
			if n%8 == 0 {
				g.add2("trydec", H(n1), H(n2), H(make([]byte, n)), fmt.Sprintf("%d zero bytes", n))
			}
		}
		valid := peerEncrypt(r.Bytes(30), r.Bytes(14), n1, n2) // 64 bytes
		for k := 0; k < len(valid); k++ {
			g.add("trydec", H(n1), H(n2), H(valid[:k]), fmt.Sprintf("valid 64-byte ciphertext truncated to %d bytes", k))
		}
		for _, n := range []int{0, 1, 12, 13, 28} {
			payload := r.Bytes(n)
			pl := (16 - (20+n)%16) % 16
			good := append(append(sha(payload), payload...), r.Bytes(pl)...)
			for _, j := range []int{0, 7, 19} { // SHA-1 prefix damaged
				pt := append([]byte{}, good...)
				pt[j] ^= 0x40
				g.add("trydec", H(n1), H(n2), H(refIGE(key, iv, pt, false)), fmt.Sprintf("payload %d bytes, byte %d of the SHA-1 prefix damaged", n, j))
			}
			if n > 0 { // body damaged, prefix intact
				pt := append([]byte{}, good...)
				pt[20] ^= 1
				g.add("trydec", H(n1), H(n2), H(refIGE(key, iv, pt, false)), fmt.Sprintf("payload %d bytes, first payload byte damaged", n))
			}
			// one ciphertext bit flipped
			ct := refIGE(key, iv, good, false)
			ct[len(ct)/2] ^= 0x10
			g.add("trydec", H(n1), H(n2), H(ct), "one bit of a valid ciphertext flipped")
		}
		// hash matches only after removing 16 or more bytes: not a conformant padding -> error
		{
			payload := r.Bytes(12)
			pt := append(append(sha(payload), payload...), r.Bytes(16)...)
			g.add("trydec", H(n1), H(n2), H(refIGE(key, iv, pt, false)), "SHA-1 prefix matches only with 16 trailing bytes removed")
			pt = append(pt, r.Bytes(16)...)
			g.add("trydec", H(n1), H(n2), H(refIGE(key, iv, pt, false)), "SHA-1 prefix matches only with 32 trailing bytes removed")
		}
		for _, n := range []int{16, 1024, 2048, 4096} {
			g.add("trydec", H(n1), H(n2), H(make([]byte, n)), fmt.Sprintf("%d zero bytes", n))
		}
		// the same with nonces that have leading zeros, are zero, or do not fit
		for _, nn := range [][2][]byte{{nonce(r, 32, 1), nonce(r, 16, 2)}, {nonce(r, 32, 29), nonce(r, 16, 0)}, {make([]byte, 32), make([]byte, 16)}, {nonce(r, 33, 0), nonce(r, 20, 0)}} {
			for _, n := range []int{0, 5, 16, 32, 33, 48} {
				g.add("trydec", H(nn[0]), H(nn[1]), H(r.Bytes(n)), fmt.Sprintf("%d random bytes", n))
			}
			if len(nn[0]) == 32 && len(nn[1]) == 16 {
				p := r.Bytes(17)
				g.add("trydec", H(nn[0]), H(nn[1]), H(peerEncrypt(p, r.Bytes(11), nn[0], nn[1])), "valid peer ciphertext, payload 17 bytes, padding 11")
			}
		}
		// 64 KiB of garbage (the extracted model of the loops is quadratic in the length: textbook oracle only)
		g.add("trydecbig", H(n1), H(n2), H(r.Bytes(65536)), "64 KiB of random bytes")
		g.add("trydecbig", H(n1), H(n2), H(r.Bytes(65536+7)), "64 KiB + 7 random bytes")
		if thorough {
			for i := 0; i < 400; i++ {
				g.add("trydec", H(nonce(r, 32, lz2[r.Intn(4)])), H(nonce(r, 16, lzs[r.Intn(4)])), H(r.Bytes(r.Intn(130))), "random bytes")
			}
		}
	}

	// --- call sequences in ONE process reusing the same argument buffers, overwritten in place ---
	{
		r := rng.Fork(7)
		H := vc.Hex
		itoa := strconv.Itoa
		ige2 := func(dec bool, key, iv, data []byte) {
			kind := "igeenc"
			if dec {
				kind = "igedec"
			}
			g.step(kind, H(key), H(iv), H(data), itoa(len(data)), fb)
		}
		// s1: two keys alternating in the same key buffer (k1, k2, k1, ...), both directions
		{
			g.newSeq()
			k1, k2, iv, d := r.Bytes(32), r.Bytes(32), r.Bytes(32), r.Bytes(48)
			for i, k := range [][]byte{k1, k2, k1, k2, k2, k1, k1, k2} {
				ige2(i >= 3 && i%2 == 1, k, iv, d)
			}
		}
		// s2: two ivs alternating under one key
		{
			g.newSeq()
			k, iv1, iv2, d := r.Bytes(32), r.Bytes(32), r.Bytes(32), r.Bytes(64)
			for i, iv := range [][]byte{iv1, iv2, iv1, iv2, iv2, iv1} {
				ige2(i%3 == 2, k, iv, d)
			}
		}
		// s3: the same key twice, then one byte / one bit changed in place, then other key sizes and back
		{
			g.newSeq()
			k, iv, d := r.Bytes(32), r.Bytes(32), r.Bytes(32)
			ige2(false, k, iv, d)
			ige2(false, k, iv, d)
			k2 := append([]byte{}, k...)
			k2[31] ^= 1
			ige2(false, k2, iv, d)
			k3 := append([]byte{}, k2...)
			k3[0] ^= 0x80
			ige2(true, k3, iv, d)
			ige2(true, k, iv, d)
			ige2(false, r.Bytes(16), iv, d)
			ige2(false, r.Bytes(16), iv, d)
			ige2(true, r.Bytes(24), iv, d)
			ige2(false, k, iv, d)
			ige2(false, r.Bytes(31), iv, d) // refused key size must not disturb the next call
			ige2(false, k2, iv, d)
		}
		// s4: output of one call is the input of the next (encrypt, decrypt back, other key, ...), lengths varying
		{
			g.newSeq()
			iv := r.Bytes(32)
			for i := 0; i < 6; i++ {
				k := r.Bytes(32)
				d := r.Bytes(16 * (1 + r.Intn(5)))
				ige2(false, k, iv, d)
				ige2(true, k, iv, refIGE(k, iv, d, false))
				ige2(false, k, iv, r.Bytes(7+i)) // refused length in between
				if i == 2 {
					long := r.Bytes(16 * 129)
					ige2(false, k, iv, long)
					ige2(true, k, iv, long)
				}
			}
		}
		// s5: temp-key wrappers and message-level functions interleaved with the loops; nonces re-set in the
		// same big.Int objects, auth keys / messages overwritten in place
		{
			g.newSeq()
			na, nb := nonce(r, 32, 0), nonce(r, 32, 1)
			sa, sb := nonce(r, 16, 0), nonce(r, 16, 2)
			ak1, ak2 := r.Bytes(256), r.Bytes(256)
			k, iv := r.Bytes(32), r.Bytes(32)
			type nn struct{ n, s []byte }
			for i, p := range []nn{{na, sa}, {nb, sa}, {na, sb}, {nb, sb}, {na, sa}} {
				g.step("tk", H(p.n), H(p.s))
				payload := r.Bytes(12 + i*7)
				g.step("enc", H(p.n), H(p.s), H(payload))
				ige2(i%2 == 0, k, iv, r.Bytes(32))
				pl := (16 - (20+len(payload))%16) % 16
				g.step("dec", H(p.n), H(p.s), H(peerEncrypt(payload, r.Bytes(pl), p.n, p.s)), H(payload), itoa(pl))
				g.step("encraw", H(p.n), H(p.s), H(r.Bytes(32)))
				g.step("trydec", H(p.n), H(p.s), H(peerEncrypt(payload, r.Bytes(pl), p.n, p.s)), "valid peer ciphertext")
				g.step("trydec", H(p.n), H(p.s), H(r.Bytes(16*(i%3))), "garbage")
				ak := ak1
				if i%2 == 1 {
					ak = ak2
				}
				g.step("msgenc", H(r.Bytes(20+i)), H(ak))
				g.step("msgdec", H(r.Bytes(48)), H(ak), H(r.Bytes(16)))
				g.step("aesige", H(r.Bytes(16)), H(ak), itoa(i%2))
			}
		}
		// s5b: consecutive nonce pairs whose variable-length renderings run together: with leading zero bytes dropped
		// (big.Int.Bytes()) the concatenation new_nonce|server_nonce of the two pairs is the same byte string, a byte
		// (or two, or a whole nonce's worth of zeros) having moved across the boundary.  Anything that identifies a
		// pair by such a rendering (a memo of the last derivation, a map key) hands the second pair the first one's keys.
		{
			g.newSeq()
			type nn struct{ n, s []byte }
			var pairs []nn
			for _, k := range []int{1, 2, 3} {
				a, b := r.Bytes(32-k), r.Bytes(16)
				a[0] |= 1
				b[k] |= 1
				n1 := append(make([]byte, k), a...)
				n2 := append(append([]byte{}, a...), b[:k]...)
				s2 := append(make([]byte, k), b[k:]...)
				pairs = append(pairs, nn{n1, b}, nn{n2, s2})
			}
			{ // the all-zero new_nonce next to a pair whose server nonce carries everything, and the reverse
				b := r.Bytes(16)
				b[0] |= 1
				pairs = append(pairs, nn{make([]byte, 32), b}, nn{append(make([]byte, 16), b...), make([]byte, 16)})
			}
			for i := 0; i+1 < len(pairs); i += 2 {
				for _, p := range []nn{pairs[i], pairs[i+1], pairs[i]} {
					g.step("tk", H(p.n), H(p.s))
				}
				payload := r.Bytes(12)
				for _, p := range []nn{pairs[i], pairs[i+1]} {
					g.step("enc", H(p.n), H(p.s), H(payload))
					g.step("dec", H(p.n), H(p.s), H(peerEncrypt(payload, nil, p.n, p.s)), H(payload), "0")
				}
			}
		}
		// s6..: random mixes over a small pool of values, so that repeats and alternations occur
		nseq, nsteps := 3, 40
		if thorough {
			nseq, nsteps = 12, 120
		}
		for q := 0; q < nseq; q++ {
			if q%3 == 1 {
				g.newSeqW() // shared buffers are windows of larger arrays, all arrays compared after every call
			} else {
				g.newSeq()
			}
			keys := [][]byte{r.Bytes(32), r.Bytes(32), rep(0, 32), r.Bytes(16)}
			ivs := [][]byte{r.Bytes(32), r.Bytes(32), rep(0xff, 32)}
			ns := [][]byte{nonce(r, 32, 0), nonce(r, 32, 1), nonce(r, 32, 29)}
			sv := [][]byte{nonce(r, 16, 0), nonce(r, 16, 1)}
			aks := [][]byte{r.Bytes(256), r.Bytes(256)}
			for i := 0; i < nsteps; i++ {
				switch r.Intn(8) {
				case 0, 1, 2:
					ige2(false, keys[r.Intn(4)], ivs[r.Intn(3)], r.Bytes(16*(1+r.Intn(4))))
				case 3, 4:
					ige2(true, keys[r.Intn(4)], ivs[r.Intn(3)], r.Bytes(16*(1+r.Intn(4))))
				case 5:
					n, s := ns[r.Intn(3)], sv[r.Intn(2)]
					payload := r.Bytes(r.Intn(40))
					if r.Bool() {
						g.step("enc", H(n), H(s), H(payload))
					} else {
						pl := (16 - (20+len(payload))%16) % 16
						g.step("dec", H(n), H(s), H(peerEncrypt(payload, r.Bytes(pl), n, s)), H(payload), itoa(pl))
					}
				case 6:
					if r.Bool() {
						g.step("tk", H(ns[r.Intn(3)]), H(sv[r.Intn(2)]))
					} else {
						g.step("trydec", H(ns[r.Intn(3)]), H(sv[r.Intn(2)]), H(r.Bytes(8*r.Intn(9))), "random bytes")
					}
				default:
					if r.Bool() {
						g.step("msgenc", H(r.Bytes(1+r.Intn(50))), H(aks[r.Intn(2)]))
					} else {
						g.step("msgdec", H(r.Bytes(16*(1+r.Intn(3)))), H(aks[r.Intn(2)]), H(r.Bytes(16)))
					}
				}
			}
		}
	}

	// a long life in one process: the key-exchange wrapper used many hundred times over (whatever it keeps between calls -
	// a buffered random source, a pooled buffer, a counter - is used up, refilled or wraps somewhere on the way); payloads of
	// the size of client_DH_inner_data (304 bytes: 12 padding bytes), of one byte (11), and small random ones
	{
		g.newSeq()
		r := rng.Fork(0x50a4)
		soak := 1300
		if thorough {
			soak = 6000
		}
		n, s := nonce(r, 32, 0), nonce(r, 16, 0)
		for i := 0; i < soak; i++ {
			var payload []byte
			switch i % 3 {
			case 0:
				payload = r.Bytes(304)
			case 1:
				payload = r.Bytes(1)
			default:
				payload = r.Bytes(r.Intn(40))
			}
			g.step("enc", vc.Hex(n), vc.Hex(s), vc.Hex(payload))
			g.stat("soak_calls")
		}
	}

	g.o.Close()
	for _, k := range g.order {
		fmt.Printf("stat\t%s\t%d\n", k, g.stats[k])
	}
}
