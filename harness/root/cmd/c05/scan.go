package main

import (
	"fmt"
	"go/ast"
	"go/parser"
	"go/token"
	"os"
	"path/filepath"
	"sort"
	"strings"
)

// scanAlias checks the precondition "input and output buffer of the IGE loops do not overlap" at every call
// site of doAES256IGEencrypt / doAES256IGEdecrypt (function or method) in internal/aes_ige of the tree:
// the second argument must be a local variable defined in the same function by x := make([]byte, ...),
// never re-assigned, and different from the first argument. The two package-level forwarders
// doAES256IGEencrypt/decrypt(data, out, key, iv) may pass their own parameters on in the same order.
// Files of the verification hook (verif_*.go) and tests are not production call sites.
// Output: one line per call site:  site \t file:line \t enclosing function \t ok|bad \t detail
func scanAlias(root string) int {
	dir := filepath.Join(root, "internal", "aes_ige")
	fset := token.NewFileSet()
	pkgs, err := parser.ParseDir(fset, dir, func(fi os.FileInfo) bool {
		n := fi.Name()
		return !strings.HasSuffix(n, "_test.go") && !strings.HasPrefix(n, "verif_")
	}, 0)
	if err != nil {
		fmt.Fprintln(os.Stderr, "scan:", err)
		return 3
	}
	isLoop := func(n string) bool { return n == "doAES256IGEencrypt" || n == "doAES256IGEdecrypt" }
	var lines []string
	for _, pkg := range pkgs {
		for fname, f := range pkg.Files {
			for _, d := range f.Decls {
				fd, ok := d.(*ast.FuncDecl)
				if !ok || fd.Body == nil {
					continue
				}
				params := map[string]int{}
				idx := 0
				for _, fl := range fd.Type.Params.List {
					for _, nm := range fl.Names {
						params[nm.Name] = idx
						idx++
					}
				}
				// locals defined by make([]byte, ...) and how often each name is assigned
				made := map[string]bool{}
				assigned := map[string]int{}
				ast.Inspect(fd.Body, func(n ast.Node) bool {
					as, ok := n.(*ast.AssignStmt)
					if !ok {
						return true
					}
					for i, l := range as.Lhs {
						id, ok := l.(*ast.Ident)
						if !ok {
							continue
						}
						assigned[id.Name]++
						if as.Tok == token.DEFINE && len(as.Lhs) == len(as.Rhs) {
							if c, ok := as.Rhs[i].(*ast.CallExpr); ok {
								if fn, ok := c.Fun.(*ast.Ident); ok && fn.Name == "make" && len(c.Args) >= 2 {
									if at, ok := c.Args[0].(*ast.ArrayType); ok && at.Len == nil {
										if el, ok := at.Elt.(*ast.Ident); ok && el.Name == "byte" {
											made[id.Name] = true
										}
									}
								}
							}
						}
					}
					return true
				})
				ast.Inspect(fd.Body, func(n ast.Node) bool {
					c, ok := n.(*ast.CallExpr)
					if !ok {
						return true
					}
					name := ""
					switch fn := c.Fun.(type) {
					case *ast.Ident:
						name = fn.Name
					case *ast.SelectorExpr:
						name = fn.Sel.Name
					}
					if !isLoop(name) || len(c.Args) < 2 {
						return true
					}
					pos := fset.Position(c.Pos())
					where := fmt.Sprintf("%s:%d", filepath.Base(fname), pos.Line)
					in, ok1 := c.Args[0].(*ast.Ident)
					out, ok2 := c.Args[1].(*ast.Ident)
					verdict, detail := "bad", ""
					switch {
					case !ok1 || !ok2:
						detail = "in/out arguments are not plain variables: cannot see that they do not overlap"
					case in.Name == out.Name:
						detail = "the same slice is passed as input and output: the result is not the IGE definition"
					case isLoop(fd.Name.Name) && params[in.Name] == 0 && params[out.Name] == 1 && assigned[in.Name]+assigned[out.Name] == 0:
						verdict, detail = "ok", "forwarder passes its own (in, out) parameters on"
					case made[out.Name] && assigned[out.Name] == 1:
						verdict, detail = "ok", "out is a fresh make([]byte, ...) of this function"
					default:
						detail = "out (" + out.Name + ") is not a fresh make([]byte, ...) of this function"
					}
					lines = append(lines, strings.Join([]string{"site", where, fd.Name.Name, name, verdict, detail}, "\t"))
					return true
				})
			}
		}
	}
	sort.Strings(lines)
	for _, l := range lines {
		fmt.Println(l)
	}
	return 0
}
