// Package csched is the controlled scheduler of the client harness: it is installed as
// mtproto.VerifYieldHook (build tag verif) and parks every client goroutine that reaches a
// named step boundary until the test releases it. Every blocking operation of the client is
// preceded by a yield point, so a test that releases a goroutine only when the operation
// behind the point is enabled (send lock free, frame available, rendezvous partner waiting)
// sees exactly one arrival per release and never needs a time-out to decide what happened;
// time-outs are only watchdogs that turn a disagreement into a report.
package csched

import (
	"bytes"
	"fmt"
	"runtime"
	"strconv"
	"sync"
	"time"
)

// Arrival says that an actor reached a yield point (or finished: Point == "done").
type Arrival struct {
	Actor string
	Point string
	ID    int64
	Val   interface{} // for "done": what the test's goroutine reported
}

type actor struct {
	name    string
	resume  chan struct{}
	parked  *Arrival
	pending []Arrival // arrivals not yet consumed by Await
}

// Sched holds the goroutines of one client run.
type Sched struct {
	mu     sync.Mutex
	cond   *sync.Cond
	byGoid map[int64]*actor
	byName map[string]*actor
	anon   int
	free   bool
	dead   bool
	Log    []Arrival // every arrival in global order (diagnostics)
	// PassThrough, when set, names the arrivals that are recorded but do not park the goroutine
	// (e.g. a caller about to block in its channel receive: holding it back would hide who
	// really receives what the receive loop sends). Set before the first goroutine runs.
	PassThrough func(actor, point string) bool
}

func New() *Sched {
	s := &Sched{byGoid: map[int64]*actor{}, byName: map[string]*actor{}}
	s.cond = sync.NewCond(&s.mu)
	return s
}

func goid() int64 {
	var buf [64]byte
	n := runtime.Stack(buf[:], false)
	// "goroutine 123 [running]:"
	f := bytes.Fields(buf[:n])
	id, _ := strconv.ParseInt(string(f[1]), 10, 64)
	return id
}

// Register names the calling goroutine (callers register themselves before calling into
// the client). Goroutines that hit a yield point without a name are called g1, g2, ... in
// order of first appearance (g1 is the receive loop of the first connection).
func (s *Sched) Register(name string) {
	g := goid()
	s.mu.Lock()
	a := &actor{name: name, resume: make(chan struct{})}
	s.byGoid[g] = a
	s.byName[name] = a
	s.mu.Unlock()
}

// Hook is the function to store in mtproto.VerifYieldHook.
func (s *Sched) Hook(point string, id int64) {
	g := goid()
	s.mu.Lock()
	if s.free {
		s.mu.Unlock()
		return
	}
	a := s.byGoid[g]
	if a == nil {
		s.anon++
		a = &actor{name: "g" + strconv.Itoa(s.anon), resume: make(chan struct{})}
		s.byGoid[g] = a
		s.byName[a.name] = a
	}
	ar := Arrival{Actor: a.name, Point: point, ID: id}
	pass := s.PassThrough != nil && s.PassThrough(a.name, point)
	if !pass {
		a.parked = &ar
	}
	a.pending = append(a.pending, ar)
	s.Log = append(s.Log, ar)
	s.cond.Broadcast()
	s.mu.Unlock()
	if !pass {
		<-a.resume
	}
}

// Done is called by a test goroutine (registered actor) to report that its call into the
// client returned.
func (s *Sched) Done(name string, val interface{}) {
	s.mu.Lock()
	a := s.byName[name]
	ar := Arrival{Actor: name, Point: "done", Val: val}
	a.parked = nil
	a.pending = append(a.pending, ar)
	s.Log = append(s.Log, ar)
	s.cond.Broadcast()
	s.mu.Unlock()
}

// ErrStuck is returned by Await when the watchdog fires.
type ErrStuck struct {
	Actor string
	After time.Duration
	Stack string
}

func (e *ErrStuck) Error() string {
	return fmt.Sprintf("actor %s produced no arrival within %v", e.Actor, e.After)
}

// Await returns the next unconsumed arrival of the named actor. If none comes within d it
// returns *ErrStuck with a dump of all goroutine stacks.
func (s *Sched) Await(name string, d time.Duration) (Arrival, error) {
	deadline := time.Now().Add(d)
	t := time.AfterFunc(d, func() { s.mu.Lock(); s.cond.Broadcast(); s.mu.Unlock() })
	defer t.Stop()
	s.mu.Lock()
	defer s.mu.Unlock()
	for {
		if a := s.byName[name]; a != nil && len(a.pending) > 0 {
			ar := a.pending[0]
			a.pending = a.pending[1:]
			return ar, nil
		}
		if time.Now().After(deadline) {
			buf := make([]byte, 1<<18)
			n := runtime.Stack(buf, true)
			return Arrival{}, &ErrStuck{Actor: name, After: d, Stack: string(buf[:n])}
		}
		s.cond.Wait()
	}
}

// TryAwait is Await without the goroutine dump: ok=false means "no arrival within d", which a test
// uses to recognise that the released goroutine is blocked inside the client (e.g. on a mutex).
func (s *Sched) TryAwait(name string, d time.Duration) (Arrival, bool) {
	deadline := time.Now().Add(d)
	t := time.AfterFunc(d, func() { s.mu.Lock(); s.cond.Broadcast(); s.mu.Unlock() })
	defer t.Stop()
	s.mu.Lock()
	defer s.mu.Unlock()
	for {
		if a := s.byName[name]; a != nil && len(a.pending) > 0 {
			ar := a.pending[0]
			a.pending = a.pending[1:]
			return ar, true
		}
		if time.Now().After(deadline) {
			return Arrival{}, false
		}
		s.cond.Wait()
	}
}

// AwaitAny returns the next unconsumed arrival of any of the named actors.
func (s *Sched) AwaitAny(names []string, d time.Duration) (Arrival, error) {
	deadline := time.Now().Add(d)
	t := time.AfterFunc(d, func() { s.mu.Lock(); s.cond.Broadcast(); s.mu.Unlock() })
	defer t.Stop()
	s.mu.Lock()
	defer s.mu.Unlock()
	for {
		for _, name := range names {
			if a := s.byName[name]; a != nil && len(a.pending) > 0 {
				ar := a.pending[0]
				a.pending = a.pending[1:]
				return ar, nil
			}
		}
		if time.Now().After(deadline) {
			buf := make([]byte, 1<<18)
			n := runtime.Stack(buf, true)
			return Arrival{}, &ErrStuck{Actor: fmt.Sprint(names), After: d, Stack: string(buf[:n])}
		}
		s.cond.Wait()
	}
}

// Parked reports where the actor is parked (nil if it is running, blocked inside the client
// or finished).
func (s *Sched) Parked(name string) *Arrival {
	s.mu.Lock()
	defer s.mu.Unlock()
	if a := s.byName[name]; a != nil && a.parked != nil {
		c := *a.parked
		return &c
	}
	return nil
}

// Release lets a parked actor continue. It panics if the actor is not parked: releasing
// something that is not waiting would be a harness bug, not a property of the client.
func (s *Sched) Release(name string) {
	s.mu.Lock()
	a := s.byName[name]
	if a == nil || a.parked == nil {
		s.mu.Unlock()
		panic("csched: release of actor that is not parked: " + name)
	}
	a.parked = nil
	s.mu.Unlock()
	a.resume <- struct{}{}
}

// Actors lists the names seen so far.
func (s *Sched) Actors() []string {
	s.mu.Lock()
	defer s.mu.Unlock()
	var l []string
	for n := range s.byName {
		l = append(l, n)
	}
	return l
}

// FreeRun makes every later yield a no-op (goroutines already parked stay parked unless
// released): used for tear-down and for tests that do not control the schedule.
func (s *Sched) FreeRun() {
	s.mu.Lock()
	s.free = true
	s.mu.Unlock()
}
