// Package tlh: reflection-based translator of the TL type universe of the current tree
// (registered constructors, enum types, hand-written wrappers, pointee structs, interfaces)
// into the line-based descriptor file from which coq/gen/Registry.v and the model driver's
// registry are built, plus the abstraction Go value -> model value text (gval).
//
// The translator is behavioural: it sees what the encoder/decoder see through reflection
// (field order, kinds, tl tags, FlagIndex(), CRC(), Implements), so a refactoring of the
// generated files that keeps the types intact does not disturb it.
package tlh

import (
	"fmt"
	"reflect"
	"sort"
	"strconv"
	"strings"

	"github.com/xelaj/mtproto/internal/encoding/tl"
	"github.com/xelaj/mtproto/internal/mtproto/objects"
)

var (
	tInt128    = reflect.TypeOf(&tl.Int128{})
	tInt256    = reflect.TypeOf(&tl.Int256{})
	tObject    = reflect.TypeOf((*tl.Object)(nil)).Elem()
	tContainer = reflect.TypeOf(&objects.MessageContainer{})
	tGzip      = reflect.TypeOf(&objects.GzipPacked{})
)

type Field struct {
	Name string
	Type reflect.Type
	Fty  string
	Tag  string // "none" | "ignore" | "flag:N" | "bitflag:N" | "bad:<text>"
}

type Struct struct {
	Tid        int
	Type       reflect.Type // struct type (not pointer)
	Name       string
	Crc        uint32
	CrcOK      bool // CRC() callable without panic
	FlagIndex  int  // -1 if no FlagIndexGetter
	Fields     []Field
	Impls      []int
	Registered bool // objectByCrc[Crc] == *Type
	Scanned    bool // found by the source scan for CRC() methods
}

type Enum struct {
	Eid     int
	Type    reflect.Type
	Name    string
	Members []uint32 // registered crcs of this enum type
	Impls   []int
}

type Universe struct {
	Structs  []*Struct
	Enums    []*Enum
	Ifaces   []reflect.Type
	structID map[reflect.Type]int
	enumID   map[reflect.Type]int
	ifaceID  map[reflect.Type]int
	// registry proper: crc -> what DecodeUnknownObject instantiates
	RegCrcs []uint32
	Reg     map[uint32]string // "s<tid>" | "e<eid>" | "container" | "gzip" | "other:<type>"
}

func typeName(t reflect.Type) string {
	p := t.PkgPath()
	if i := strings.LastIndex(p, "/"); i >= 0 {
		p = p[i+1:]
	}
	if p == "" {
		return t.String()
	}
	return p + "." + t.Name()
}

func hasCRC(t reflect.Type) bool { return t.Implements(tObject) }

func safeCRC(o tl.Object) (crc uint32, ok bool) {
	defer func() {
		if recover() != nil {
			ok = false
		}
	}()
	return o.CRC(), true
}

// Build collects the universe. scanned: values found by the source scan (pointers to structs,
// enum values) in addition to the registry.
func Build(scanned []interface{}) *Universe {
	u := &Universe{structID: map[reflect.Type]int{}, enumID: map[reflect.Type]int{}, ifaceID: map[reflect.Type]int{}, Reg: map[uint32]string{}}
	objs, _ := tl.VerifRegistry()

	structTypes := map[reflect.Type]bool{}
	scannedStruct := map[reflect.Type]bool{}
	enumTypes := map[reflect.Type]bool{}
	addType := func(t reflect.Type, fromScan bool) {
		switch {
		case t == tContainer || t == tGzip:
		case t.Kind() == reflect.Ptr && t.Elem().Kind() == reflect.Struct:
			structTypes[t.Elem()] = true
			if fromScan {
				scannedStruct[t.Elem()] = true
			}
		case t.Kind() == reflect.Uint32 && hasCRC(t):
			enumTypes[t] = true
		}
	}
	for _, t := range objs {
		addType(t, false)
	}
	for _, v := range scanned {
		addType(reflect.TypeOf(v), true)
	}
	// closure over pointee structs and interface / enum types in fields
	ifaces := map[reflect.Type]bool{tObject: true}
	var visitT func(t reflect.Type, work *[]reflect.Type)
	visitT = func(t reflect.Type, work *[]reflect.Type) {
		switch t.Kind() {
		case reflect.Ptr:
			if t == tInt128 || t == tInt256 {
				return
			}
			if t.Elem().Kind() == reflect.Struct && !structTypes[t.Elem()] && hasCRC(t) && t != tGzip {
				structTypes[t.Elem()] = true
				*work = append(*work, t.Elem())
			}
		case reflect.Slice:
			visitT(t.Elem(), work)
		case reflect.Interface:
			ifaces[t] = true
		case reflect.Uint32:
			if hasCRC(t) {
				enumTypes[t] = true
			}
		}
	}
	work := []reflect.Type{}
	for t := range structTypes {
		work = append(work, t)
	}
	for len(work) > 0 {
		st := work[0]
		work = work[1:]
		for i := 0; i < st.NumField(); i++ {
			visitT(st.Field(i).Type, &work)
		}
	}
	// deterministic ids
	sts := []reflect.Type{}
	for t := range structTypes {
		sts = append(sts, t)
	}
	sort.Slice(sts, func(i, j int) bool { return typeName(sts[i]) < typeName(sts[j]) })
	for i, t := range sts {
		u.structID[t] = i
	}
	ets := []reflect.Type{}
	for t := range enumTypes {
		ets = append(ets, t)
	}
	sort.Slice(ets, func(i, j int) bool { return typeName(ets[i]) < typeName(ets[j]) })
	for i, t := range ets {
		u.enumID[t] = i
	}
	its := []reflect.Type{}
	for t := range ifaces {
		if t != tObject {
			its = append(its, t)
		}
	}
	sort.Slice(its, func(i, j int) bool { return typeName(its[i]) < typeName(its[j]) })
	its = append([]reflect.Type{tObject}, its...) // iid 0 = tl.Object
	for i, t := range its {
		u.ifaceID[t] = i
	}
	u.Ifaces = its

	impls := func(t reflect.Type) []int {
		r := []int{}
		for i, it := range its {
			if t.Implements(it) {
				r = append(r, i)
			}
		}
		return r
	}
	for i, st := range sts {
		s := &Struct{Tid: i, Type: st, Name: typeName(st), FlagIndex: -1, Scanned: scannedStruct[st]}
		pv := reflect.New(st)
		if o, ok := pv.Interface().(tl.Object); ok {
			s.Crc, s.CrcOK = safeCRC(o)
		}
		if g, ok := pv.Interface().(tl.FlagIndexGetter); ok {
			s.FlagIndex = g.FlagIndex()
		}
		for k := 0; k < st.NumField(); k++ {
			f := st.Field(k)
			s.Fields = append(s.Fields, Field{Name: f.Name, Type: f.Type, Fty: u.Fty(f.Type), Tag: tagOf(f)})
		}
		s.Impls = impls(reflect.PtrTo(st))
		if s.CrcOK {
			if rt, ok := objs[s.Crc]; ok && rt == reflect.PtrTo(st) {
				s.Registered = true
			}
		}
		u.Structs = append(u.Structs, s)
	}
	for i, et := range ets {
		e := &Enum{Eid: i, Type: et, Name: typeName(et), Impls: impls(et)}
		for crc, rt := range objs {
			if rt == et {
				e.Members = append(e.Members, crc)
			}
		}
		sort.Slice(e.Members, func(a, b int) bool { return e.Members[a] < e.Members[b] })
		u.Enums = append(u.Enums, e)
	}
	for crc, rt := range objs {
		u.RegCrcs = append(u.RegCrcs, crc)
		switch {
		case rt == tContainer:
			u.Reg[crc] = "container"
		case rt == tGzip:
			u.Reg[crc] = "gzip"
		case rt.Kind() == reflect.Ptr && rt.Elem().Kind() == reflect.Struct:
			u.Reg[crc] = "s" + strconv.Itoa(u.structID[rt.Elem()])
		case rt.Kind() == reflect.Uint32 && hasCRC(rt):
			u.Reg[crc] = "e" + strconv.Itoa(u.enumID[rt])
		default:
			u.Reg[crc] = "other:" + rt.String()
		}
	}
	sort.Slice(u.RegCrcs, func(i, j int) bool { return u.RegCrcs[i] < u.RegCrcs[j] })
	return u
}

func tagOf(f reflect.StructField) string {
	raw, found := f.Tag.Lookup("tl")
	if !found {
		return "none"
	}
	parts := strings.Split(raw, ",")
	name := parts[0]
	if name == "-" {
		return "ignore"
	}
	bitflag := false
	for _, o := range parts[1:] {
		if o == "encoded_in_bitflags" {
			bitflag = true
		}
	}
	if strings.HasPrefix(name, "flag:") {
		n, err := strconv.Atoi(strings.TrimPrefix(name, "flag:"))
		if err != nil || n < 0 || n > 31 {
			return "bad:" + raw
		}
		if bitflag {
			return "bitflag:" + strconv.Itoa(n)
		}
		return "flag:" + strconv.Itoa(n)
	}
	if bitflag {
		return "bad:" + raw
	}
	// a tl tag without a flag index (e.g. only omitempty): the decoder tests bit 0 for it
	return "bad:" + raw
}

// Fty renders a Go type as the model's field type.
func (u *Universe) Fty(t reflect.Type) string {
	switch {
	case t == tInt128:
		return "i128"
	case t == tInt256:
		return "i256"
	case t == tContainer || t == tGzip:
		return "bad:custom"
	}
	switch t.Kind() {
	case reflect.Int32:
		return "i32"
	case reflect.Uint32:
		if hasCRC(t) {
			return "e" + strconv.Itoa(u.enumID[t])
		}
		return "u32"
	case reflect.Int64:
		return "i64"
	case reflect.Float64:
		return "f64"
	case reflect.Bool:
		return "bool"
	case reflect.String:
		return "str"
	case reflect.Slice:
		if t.Elem().Kind() == reflect.Uint8 {
			return "bytes"
		}
		return "V" + u.Fty(t.Elem())
	case reflect.Ptr:
		if t.Elem().Kind() == reflect.Struct {
			if id, ok := u.structID[t.Elem()]; ok {
				return "P" + strconv.Itoa(id)
			}
		}
		return "bad:" + t.String()
	case reflect.Interface:
		if id, ok := u.ifaceID[t]; ok {
			return "I" + strconv.Itoa(id)
		}
		return "bad:" + t.String()
	}
	return "bad:" + t.Kind().String()
}

// TypeOfFty is the inverse of Fty on the descriptors that can occur as decoder hints.
func (u *Universe) TypeOfFty(s string) (reflect.Type, bool) {
	switch s {
	case "i32":
		return reflect.TypeOf(int32(0)), true
	case "i64":
		return reflect.TypeOf(int64(0)), true
	case "f64":
		return reflect.TypeOf(float64(0)), true
	case "bool":
		return reflect.TypeOf(false), true
	case "str":
		return reflect.TypeOf(""), true
	case "bytes":
		return reflect.TypeOf([]byte{}), true
	case "i128":
		return tInt128, true
	case "i256":
		return tInt256, true
	}
	if s == "" {
		return nil, false
	}
	n, err := strconv.Atoi(s[1:])
	switch s[0] {
	case 'V':
		e, ok := u.TypeOfFty(s[1:])
		if !ok {
			return nil, false
		}
		return reflect.SliceOf(e), true
	case 'P':
		if err == nil && n >= 0 && n < len(u.Structs) {
			return reflect.PtrTo(u.Structs[n].Type), true
		}
	case 'I':
		if err == nil && n >= 0 && n < len(u.Ifaces) {
			return u.Ifaces[n], true
		}
	case 'e':
		if err == nil && n >= 0 && n < len(u.Enums) {
			return u.Enums[n].Type, true
		}
	}
	return nil, false
}

func (u *Universe) StructOf(t reflect.Type) (*Struct, bool) {
	id, ok := u.structID[t]
	if !ok {
		return nil, false
	}
	return u.Structs[id], true
}

// Lines renders the descriptor file.
func (u *Universe) Lines() []string {
	ints := func(l []int) string {
		s := []string{}
		for _, x := range l {
			s = append(s, strconv.Itoa(x))
		}
		if len(s) == 0 {
			return "-"
		}
		return strings.Join(s, ",")
	}
	out := []string{}
	for i, it := range u.Ifaces {
		out = append(out, fmt.Sprintf("iface\t%d\t%s", i, typeName(it)))
	}
	for _, e := range u.Enums {
		ms := []string{}
		for _, m := range e.Members {
			ms = append(ms, strconv.FormatUint(uint64(m), 10))
		}
		mm := "-"
		if len(ms) > 0 {
			mm = strings.Join(ms, ",")
		}
		out = append(out, fmt.Sprintf("enum\t%d\t%s\t%s\t%s", e.Eid, e.Name, mm, ints(e.Impls)))
	}
	for _, s := range u.Structs {
		crc := "nocrc"
		if s.CrcOK {
			crc = strconv.FormatUint(uint64(s.Crc), 10)
		}
		fl := "u"
		if s.Registered {
			fl = "r"
		}
		if s.Scanned {
			fl += "s"
		}
		out = append(out, fmt.Sprintf("struct\t%d\t%s\t%s\t%d\t%d\t%s\t%s", s.Tid, s.Name, crc, s.FlagIndex, len(s.Fields), ints(s.Impls), fl))
		for _, f := range s.Fields {
			out = append(out, fmt.Sprintf("field\t%s\t%s\t%s", f.Name, f.Fty, f.Tag))
		}
	}
	for _, crc := range u.RegCrcs {
		out = append(out, fmt.Sprintf("reg\t%d\t%s", crc, u.Reg[crc]))
	}
	return out
}
