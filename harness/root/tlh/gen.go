package tlh

import (
	"fmt"
	"math"
	"math/big"
	"reflect"
	"strings"

	"github.com/xelaj/mtproto/internal/encoding/tl"
	vc "verifcommon"
)

// Gen builds Go values of the universe's types by reflection, biased to the boundaries the
// properties name (flag-group presence patterns, string header thresholds, integer extremes,
// leading-zero big integers, nil/empty slices, every enum member).
type Gen struct {
	U       *Universe
	R       *vc.Rng
	implsOf map[int][]*Struct // registered structs implementing interface i
	md      map[reflect.Type]int
	Big     bool // allow the rare very long strings
	lits    []int // integer constants of the codec's own sources (buffer sizes, thresholds): lengths worth trying
	// the last few object pointers handed out: now and then one of them is used AGAIN (two fields or two vector
	// elements holding the same pointer - a caller that puts one peer object into two places).  Values are finished
	// before they are remembered and never changed afterwards, so sharing makes DAGs, never cycles.
	recent []reflect.Value
	Shared int // how many times a pointer was used a second time
}

// remember / reuse: see Gen.recent
func (g *Gen) remember(pv reflect.Value) reflect.Value {
	if len(g.recent) >= 6 {
		g.recent = g.recent[1:]
	}
	g.recent = append(g.recent, pv)
	return pv
}

func (g *Gen) reuse(t reflect.Type) (reflect.Value, bool) {
	if len(g.recent) == 0 || g.R.Intn(5) != 0 {
		return reflect.Value{}, false
	}
	for k := len(g.recent) - 1; k >= 0; k-- {
		pv := g.recent[k]
		if pv.Type() == t || t.Kind() == reflect.Interface && pv.Type().Implements(t) {
			if pv.Elem().NumField() == 0 {
				continue // all pointers to zero-size values are the same pointer anyway
			}
			g.Shared++
			return pv, true
		}
	}
	return reflect.Value{}, false
}

// litDirs: the packages whose constants the generator uses as lengths of its own
var litDirs = []string{"internal/encoding/tl", "internal/mtproto/objects", "internal/mtproto/messages", "internal/utils"}

const inf = 1 << 20

func NewGen(u *Universe, r *vc.Rng) *Gen {
	g := &Gen{U: u, R: r, implsOf: map[int][]*Struct{}, md: map[reflect.Type]int{}}
	g.lits = vc.SourceLiterals(9, 1<<17, litDirs...)
	for _, s := range u.Structs {
		if !s.Registered {
			continue
		}
		for _, i := range s.Impls {
			g.implsOf[i] = append(g.implsOf[i], s)
		}
	}
	// minimal nesting depth needed to build a value of each struct type
	for _, s := range u.Structs {
		g.md[s.Type] = inf
	}
	for changed := true; changed; {
		changed = false
		for _, s := range u.Structs {
			d := 0
			for _, f := range s.Fields {
				if f.Tag != "none" {
					continue
				}
				if x := g.mdType(f.Type); x > d {
					d = x
				}
			}
			if d < inf && d+1 < g.md[s.Type] {
				g.md[s.Type] = d + 1
				changed = true
			}
		}
	}
	return g
}

func (g *Gen) mdType(t reflect.Type) int {
	switch t.Kind() {
	case reflect.Ptr:
		if t == tInt128 || t == tInt256 {
			return 0
		}
		if d, ok := g.md[t.Elem()]; ok {
			return d
		}
		return inf
	case reflect.Interface:
		id, ok := g.U.ifaceID[t]
		if !ok {
			return inf
		}
		best := inf
		for _, s := range g.implsOf[id] {
			if g.md[s.Type] < best {
				best = g.md[s.Type]
			}
		}
		return best
	}
	return 0
}

var strLens = []int{0, 1, 2, 3, 4, 5, 6, 7, 8, 252, 253, 254, 255, 256, 257}

func (g *Gen) strLen() int {
	switch g.R.Intn(10) {
	case 0, 1, 2:
		return strLens[g.R.Intn(len(strLens))]
	case 3:
		if g.Big && g.R.Intn(60) == 0 {
			return []int{65535, 65536, 65537}[g.R.Intn(3)]
		}
		if g.Big && g.R.Intn(50) == 0 {
			// the regions between the boundary values: a few hundred bytes up to ~2^17
			return 301 + g.R.Intn([]int{700, 4000, 66000, 140000}[g.R.Intn(4)])
		}
		return g.R.Intn(300)
	case 4:
		// one below, at, one above a constant of the implementation (small ones always, large ones like the long strings)
		if len(g.lits) > 0 {
			l := g.lits[g.R.Intn(len(g.lits))] - 1 + g.R.Intn(3)
			if l <= 300 || (g.Big && g.R.Intn(12) == 0) {
				return l
			}
		}
		return g.R.Intn(24)
	default:
		return g.R.Intn(24)
	}
}

// SpareLen / SpareByte: every byte string the generator builds is a sub-slice of a longer array whose remaining bytes
// (the slice's spare capacity) hold SpareByte - memory of the caller that lies behind the value, as when two fields are
// cut out of one receive buffer. Nothing the library does with the value may change it (SpareIntact).
const (
	SpareLen  = 6
	SpareByte = 0xc3
)

// SpareIntact walks a generated value and reports the first byte string whose spare capacity was written to.
func SpareIntact(v reflect.Value) (bool, string) {
	switch v.Kind() {
	case reflect.Ptr, reflect.Interface:
		if v.IsNil() {
			return true, ""
		}
		return SpareIntact(v.Elem())
	case reflect.Struct:
		for i := 0; i < v.NumField(); i++ {
			if ok, where := SpareIntact(v.Field(i)); !ok {
				return false, v.Type().Field(i).Name + "." + where
			}
		}
	case reflect.Slice:
		if v.Type().Elem().Kind() == reflect.Uint8 {
			if v.Cap() >= v.Len()+SpareLen {
				all := v.Slice3(0, v.Len()+SpareLen, v.Len()+SpareLen)
				for i := v.Len(); i < v.Len()+SpareLen; i++ {
					if all.Index(i).Uint() != SpareByte {
						return false, fmt.Sprintf("[]byte(len %d): byte %d behind the slice is %#x", v.Len(), i-v.Len(), all.Index(i).Uint())
					}
				}
			}
			return true, ""
		}
		for i := 0; i < v.Len(); i++ {
			if ok, where := SpareIntact(v.Index(i)); !ok {
				return false, fmt.Sprintf("[%d].%s", i, where)
			}
		}
	}
	return true, ""
}

func (g *Gen) bytesN(n int) []byte {
	full := make([]byte, n+SpareLen)
	for i := n; i < len(full); i++ {
		full[i] = SpareByte
	}
	b := full[:n]
	switch g.R.Intn(4) {
	case 0: // zeros
	case 1:
		for i := range b {
			b[i] = 'a' + byte(i%26)
		}
	default:
		copy(b, g.R.Bytes(n))
	}
	return b
}

var int32s = []uint32{0, 1, 0xffffffff, 0x7fffffff, 0x80000000, 2, 0xff, 0x100, 0x1cb5c415, 0x997275b5, 0xbc799737, 0x56730bcc}
var int64s = []uint64{0, 1, 0xffffffffffffffff, 0x7fffffffffffffff, 0x8000000000000000, 0x100000000, 0xffffffff}
var doubles = []uint64{0, 0x8000000000000000, 0x3ff0000000000000, 0x7ff0000000000000, 0xfff0000000000000, 0x7ff8000000000001, 0x7ff0000000000001, 1, 0x7fefffffffffffff, 0xc00921fb54442d18}

// nonzero: produce a value for which reflect.Value.IsZero is false (used for "present" conditional fields)
func (g *Gen) Value(t reflect.Type, depth int, nonzero bool) reflect.Value {
	v := reflect.New(t).Elem()
	switch t.Kind() {
	case reflect.Int32:
		x := int32s[g.R.Intn(len(int32s))]
		if g.R.Bool() {
			x = uint32(g.R.U64())
		}
		if nonzero && x == 0 {
			x = 7
		}
		v.SetInt(int64(int32(x)))
	case reflect.Uint32:
		if hasCRC(t) {
			e := g.U.Enums[g.U.enumID[t]]
			if len(e.Members) > 0 {
				v.SetUint(uint64(e.Members[g.R.Intn(len(e.Members))]))
			} else if nonzero {
				v.SetUint(1)
			}
			return v
		}
		x := int32s[g.R.Intn(len(int32s))]
		if nonzero && x == 0 {
			x = 7
		}
		v.SetUint(uint64(x))
	case reflect.Int64:
		x := int64s[g.R.Intn(len(int64s))]
		if g.R.Bool() {
			x = g.R.U64()
		}
		if nonzero && x == 0 {
			x = 9
		}
		v.SetInt(int64(x))
	case reflect.Float64:
		x := doubles[g.R.Intn(len(doubles))]
		if g.R.Intn(3) == 0 {
			x = g.R.U64()
		}
		if nonzero && (x == 0 || x == 0x8000000000000000) {
			x = 0x3ff0000000000000 // both zeros are the zero value for reflect.Value.IsZero
		}
		v.SetFloat(math.Float64frombits(x))
		if math.Float64bits(v.Float()) != x { // NaN payloads may be quieted by SetFloat on some paths
			v.SetFloat(math.Float64frombits(0x3ff0000000000000))
		}
	case reflect.Bool:
		v.SetBool(nonzero || g.R.Bool())
	case reflect.String:
		n := g.strLen()
		if nonzero && n == 0 {
			n = 1
		}
		v.SetString(string(g.bytesN(n)))
	case reflect.Slice:
		if t.Elem().Kind() == reflect.Uint8 {
			n := g.strLen()
			if n == 0 && !nonzero && g.R.Bool() {
				return v // nil
			}
			v.SetBytes(g.bytesN(n))
			return v
		}
		var n int
		switch g.R.Intn(6) {
		case 0:
			if !nonzero {
				return v // nil slice
			}
			n = 0
		case 1:
			n = 0
		case 2:
			n = 1
		case 3:
			n = 2
		case 4:
			n = 17
			if depth <= 1 || g.mdType(t.Elem()) > 0 {
				n = 3
			}
		default:
			n = g.R.Intn(4)
		}
		if depth <= 0 && g.mdType(t.Elem()) > 0 {
			n = 0
		}
		s := reflect.MakeSlice(t, n, n)
		for i := 0; i < n; i++ {
			s.Index(i).Set(g.Value(t.Elem(), depth-1, true))
		}
		v.Set(s)
	case reflect.Ptr:
		if t == tInt128 || t == tInt256 {
			size := 16
			if t == tInt256 {
				size = 32
			}
			b := g.R.Bytes(size)
			switch g.R.Intn(6) {
			case 0:
				b[0] = 0
			case 1:
				b[0], b[1] = 0, 0
			case 2:
				for i := range b {
					b[i] = 0
				}
			case 3:
				for i := 0; i < size-1; i++ {
					b[i] = 0
				}
			}
			bi := new(big.Int).SetBytes(b)
			if t == tInt128 {
				v.Set(reflect.ValueOf(&tl.Int128{Int: bi}))
			} else {
				v.Set(reflect.ValueOf(&tl.Int256{Int: bi}))
			}
			return v
		}
		if s, ok := g.U.StructOf(t.Elem()); ok {
			if pv, again := g.reuse(t); again {
				v.Set(pv)
				return v
			}
			v.Set(g.remember(g.Struct(s, depth-1, nil)))
		}
	case reflect.Interface:
		id, ok := g.U.ifaceID[t]
		if !ok {
			return v
		}
		if pv, again := g.reuse(t); again {
			v.Set(pv)
			return v
		}
		cands := g.implsOf[id]
		ok2 := []*Struct{}
		for _, s := range cands {
			if g.md[s.Type] <= depth || depth <= 0 && g.md[s.Type] <= 1 {
				ok2 = append(ok2, s)
			}
		}
		if len(ok2) == 0 {
			best := inf
			for _, s := range cands {
				if g.md[s.Type] < best {
					best = g.md[s.Type]
					ok2 = []*Struct{s}
				}
			}
		}
		if len(ok2) == 0 {
			return v
		}
		s := ok2[g.R.Intn(len(ok2))]
		v.Set(g.remember(g.Struct(s, depth-1, nil)))
	}
	return v
}

// Struct builds a pointer to a struct value. pattern (optional): per field index, force
// zero (0) / non-zero (1) for conditional fields; -1 or missing = random.
func (g *Gen) Struct(s *Struct, depth int, pattern map[int]int) reflect.Value {
	pv := reflect.New(s.Type)
	e := pv.Elem()
	for i, f := range s.Fields {
		if !e.Field(i).CanSet() {
			continue
		}
		if strings.HasPrefix(f.Fty, "bad") {
			continue
		}
		if f.Tag == "none" {
			e.Field(i).Set(g.Value(f.Type, depth, false))
			continue
		}
		want, forced := pattern[i]
		if !forced {
			want = g.R.Intn(2)
			if depth <= 0 && g.mdType(f.Type) > 0 {
				want = 0
			}
		}
		if want == 1 {
			e.Field(i).Set(g.Value(f.Type, depth, true))
		}
	}
	return pv
}

// Groups returns the conditional-flag groups of a struct: bit -> field indices.
func (s *Struct) Groups() map[int][]int {
	r := map[int][]int{}
	for i, f := range s.Fields {
		var n int
		switch {
		case strings.HasPrefix(f.Tag, "flag:"):
			n = atoi(f.Tag[5:])
		case strings.HasPrefix(f.Tag, "bitflag:"):
			n = atoi(f.Tag[8:])
		default:
			continue
		}
		r[n] = append(r[n], i)
	}
	return r
}

func atoi(s string) int {
	n := 0
	for _, c := range s {
		n = n*10 + int(c-'0')
	}
	return n
}

// SelfField returns the index of a mandatory interface-typed field of s whose interface s itself
// implements (so values of s can be nested in themselves), or -1.
func (g *Gen) SelfField(s *Struct) int {
	for i, f := range s.Fields {
		if f.Tag != "none" || f.Type.Kind() != reflect.Interface {
			continue
		}
		id, ok := g.U.ifaceID[f.Type]
		if !ok || id == 0 {
			continue
		}
		for _, k := range s.Impls {
			if k == id {
				return i
			}
		}
	}
	return -1
}

// Chain builds s{field: s{field: ... leaf}} with n levels.
func (g *Gen) Chain(s *Struct, fi int, n int) reflect.Value {
	inner := g.Value(s.Fields[fi].Type, 1, true) // a leaf of the interface
	var pv reflect.Value
	for k := 0; k < n; k++ {
		pv = g.Struct(s, 0, nil)
		pv.Elem().Field(fi).Set(inner)
		inner = pv
	}
	return pv
}
