package tlh

import (
	"encoding/hex"
	"math"
	"math/big"
	"reflect"
	"strconv"
	"strings"

	"github.com/xelaj/mtproto/internal/encoding/tl"
	"github.com/xelaj/mtproto/internal/mtproto/objects"
)

var tWrapped = reflect.TypeOf(&tl.WrappedSlice{})

// Abs renders a Go value as model value text (see coq/extract/TL/driver.ml for the grammar).
func (u *Universe) Abs(v reflect.Value) string {
	var sb strings.Builder
	u.abs(&sb, v)
	return sb.String()
}

func hx(b []byte) string { return hex.EncodeToString(b) + "." }

func (u *Universe) abs(sb *strings.Builder, v reflect.Value) {
	if !v.IsValid() {
		sb.WriteString("n")
		return
	}
	t := v.Type()
	switch t.Kind() {
	case reflect.Int32:
		sb.WriteString("i" + strconv.FormatUint(uint64(uint32(v.Int())), 16))
	case reflect.Uint32:
		if hasCRC(t) {
			sb.WriteString("e" + strconv.FormatUint(v.Uint(), 16))
		} else {
			sb.WriteString("i" + strconv.FormatUint(v.Uint(), 16))
		}
	case reflect.Int64:
		sb.WriteString("l" + strconv.FormatUint(uint64(v.Int()), 16))
	case reflect.Float64:
		sb.WriteString("d" + strconv.FormatUint(math.Float64bits(v.Float()), 16))
	case reflect.Bool:
		if v.Bool() {
			sb.WriteString("t")
		} else {
			sb.WriteString("f")
		}
	case reflect.String:
		sb.WriteString("s" + hx([]byte(v.String())))
	case reflect.Slice:
		if t.Elem().Kind() == reflect.Uint8 {
			if v.IsNil() {
				sb.WriteString("Y")
			} else {
				sb.WriteString("y" + hx(v.Bytes()))
			}
			return
		}
		if v.IsNil() {
			sb.WriteString("V")
			return
		}
		sb.WriteString("v(")
		for i := 0; i < v.Len(); i++ {
			if i > 0 {
				sb.WriteString(",")
			}
			u.abs(sb, v.Index(i))
		}
		sb.WriteString(")")
	case reflect.Interface:
		if v.IsNil() {
			sb.WriteString("n")
			return
		}
		u.abs(sb, v.Elem())
	case reflect.Ptr:
		if v.IsNil() {
			sb.WriteString("n")
			return
		}
		switch x := v.Interface().(type) {
		case *tl.Int128:
			absBig(sb, x.Int)
			return
		case *tl.Int256:
			absBig(sb, x.Int)
			return
		case *objects.MessageContainer:
			sb.WriteString("c(")
			for i, m := range *x {
				if i > 0 {
					sb.WriteString(",")
				}
				if m == nil {
					sb.WriteString("n")
					continue
				}
				sb.WriteString(strconv.FormatUint(uint64(m.MsgID), 16) + ":" + strconv.FormatUint(uint64(uint32(m.SeqNo)), 16) + ":" + hx(m.Msg))
			}
			sb.WriteString(")")
			return
		case *objects.GzipPacked:
			sb.WriteString("z")
			u.abs(sb, reflect.ValueOf(&x.Obj).Elem())
			return
		case *tl.WrappedSlice:
			sb.WriteString("w")
			d := tl.VerifWrappedSliceData(x)
			if d == nil {
				sb.WriteString("n")
			} else {
				u.abs(sb, reflect.ValueOf(d))
			}
			return
		}
		if t.Elem().Kind() == reflect.Struct {
			id, ok := u.structID[t.Elem()]
			if !ok {
				sb.WriteString("?" + t.String())
				return
			}
			sb.WriteString("o" + strconv.Itoa(id) + "(")
			e := v.Elem()
			for i := 0; i < e.NumField(); i++ {
				if i > 0 {
					sb.WriteString(",")
				}
				u.abs(sb, e.Field(i))
			}
			sb.WriteString(")")
			return
		}
		sb.WriteString("?" + t.String())
	default:
		sb.WriteString("?" + t.String())
	}
}

func absBig(sb *strings.Builder, b *big.Int) {
	if b == nil {
		sb.WriteString("G")
		return
	}
	if b.Sign() < 0 {
		sb.WriteString("?negative-big")
		return
	}
	sb.WriteString("g" + hx(b.Bytes()))
}
