package refserver

import (
	"bytes"
	"compress/gzip"
	"encoding/binary"
	"fmt"
	"strconv"
	"strings"

	"github.com/xelaj/mtproto/internal/encoding/tl"
	"github.com/xelaj/mtproto/internal/mtproto/objects"
)

// Body builders: pure functions returning the TL bytes of a server-to-client message body.
// Everything that has a Go type in the repository is serialised with the repository's own
// tl.Marshal; the constructors the repository cannot marshal (rpc_result with a raw result,
// vectors at top level, gzip_packed, msg_container with correct length fields) are laid out
// here from the MTProto schema.

const (
	CrcRpcResult    = 0xf35c6d01
	CrcRpcError     = 0x2144ca19
	CrcGzipPacked   = 0x3072cfa1
	CrcMsgContainer = 0x73f1f8dc
	CrcVector       = 0x1cb5c415
	CrcBoolTrue     = 0x997275b5
	CrcBoolFalse    = 0xbc799737
	CrcMsgsAck      = 0x62d6b459
)

func le32(v uint32) []byte { b := make([]byte, 4); binary.LittleEndian.PutUint32(b, v); return b }
func le64(v uint64) []byte { b := make([]byte, 8); binary.LittleEndian.PutUint64(b, v); return b }

// Object marshals any registered TL object with the repository's encoder.
func Object(o tl.Object) []byte {
	b, err := tl.Marshal(o)
	if err != nil {
		panic("refserver.Object: " + err.Error())
	}
	return b
}

// Bool is boolTrue / boolFalse.
func Bool(v bool) []byte {
	if v {
		return le32(CrcBoolTrue)
	}
	return le32(CrcBoolFalse)
}

// VectorInt32 is a boxed vector of bare ints.
func VectorInt32(v []int32) []byte {
	b := append(le32(CrcVector), le32(uint32(len(v)))...)
	for _, x := range v {
		b = append(b, le32(uint32(x))...)
	}
	return b
}

// VectorInt64 is a boxed vector of bare longs.
func VectorInt64(v []int64) []byte {
	b := append(le32(CrcVector), le32(uint32(len(v)))...)
	for _, x := range v {
		b = append(b, le64(uint64(x))...)
	}
	return b
}

// VectorObjects is a boxed vector of boxed objects.
func VectorObjects(v []tl.Object) []byte {
	b := append(le32(CrcVector), le32(uint32(len(v)))...)
	for _, x := range v {
		b = append(b, Object(x)...)
	}
	return b
}

// TLBytes is the TL `bytes`/`string` serialisation (1- or 4-byte length header, padded to 4).
func TLBytes(p []byte) []byte {
	var b []byte
	if len(p) < 254 {
		b = append(b, byte(len(p)))
	} else {
		b = append(b, 0xfe, byte(len(p)), byte(len(p)>>8), byte(len(p)>>16))
	}
	b = append(b, p...)
	for len(b)%4 != 0 {
		b = append(b, 0)
	}
	return b
}

// GzipVariants is the number of ways GzipStream can produce a stream.
const GzipVariants = 8

// GzipStream compresses body into a valid gzip stream (RFC 1952) the way compressor number v does it. Every variant
// inflates to exactly body; they differ in what a reader gets from its FIRST reads: a compressor which flushes
// (Z_SYNC_FLUSH: an empty stored block) makes the inflater hand out the bytes before the flush on their own, a stream
// of several members hands out each member on its own.
//
//	0 one piece, default level          4 two members, split after k bytes
//	1 flush after k bytes (k = 1..12)   5 stored blocks (no compression), one piece
//	2 stored blocks, flush after 4      6 Huffman only, flush after 4, 8 and 12 bytes
//	3 flush after every byte of the     7 best compression, flush after k bytes
//	  first 16
func GzipStream(body []byte, v, k int) []byte {
	var buf bytes.Buffer
	if k < 1 {
		k = 1
	}
	if k > len(body) {
		k = len(body)
	}
	level := gzip.DefaultCompression
	switch v {
	case 2, 5:
		level = gzip.NoCompression
	case 6:
		level = gzip.HuffmanOnly
	case 7:
		level = gzip.BestCompression
	}
	w, _ := gzip.NewWriterLevel(&buf, level)
	switch v {
	case 1, 7:
		_, _ = w.Write(body[:k])
		_ = w.Flush()
		_, _ = w.Write(body[k:])
	case 2:
		c := 4
		if c > len(body) {
			c = len(body)
		}
		_, _ = w.Write(body[:c])
		_ = w.Flush()
		_, _ = w.Write(body[c:])
	case 3:
		i := 0
		for ; i < 16 && i < len(body); i++ {
			_, _ = w.Write(body[i : i+1])
			_ = w.Flush()
		}
		_, _ = w.Write(body[i:])
	case 4:
		_, _ = w.Write(body[:k])
		_ = w.Close()
		w, _ = gzip.NewWriterLevel(&buf, level)
		_, _ = w.Write(body[k:])
	case 6:
		at := 0
		for _, c := range []int{4, 8, 12} {
			if c <= len(body) {
				_, _ = w.Write(body[at:c])
				_ = w.Flush()
				at = c
			}
		}
		_, _ = w.Write(body[at:])
	default:
		_, _ = w.Write(body)
	}
	_ = w.Close()
	return buf.Bytes()
}

// Gzip wraps body bytes into gzip_packed. The compressor is chosen by the content (FNV-1a of the body): any valid
// stream has to do, so the reference server does not always write its streams in one piece (see GzipStream).
func Gzip(body []byte) []byte {
	h := uint32(2166136261)
	for _, c := range body {
		h = (h ^ uint32(c)) * 16777619
	}
	return append(le32(CrcGzipPacked), TLBytes(GzipStream(body, int(h%GzipVariants), 1+int((h>>8)%12)))...)
}

// RpcResult is rpc_result#f35c6d01 req_msg_id:long result:Object with the given result bytes.
func RpcResult(reqMsgID int64, result []byte) []byte {
	b := append(le32(CrcRpcResult), le64(uint64(reqMsgID))...)
	return append(b, result...)
}

// RpcError is rpc_error#2144ca19 error_code:int error_message:string.
func RpcError(code int32, message string) []byte {
	return Object(&objects.RpcError{ErrorCode: code, ErrorMessage: message})
}

// Container is msg_container#73f1f8dc with each item's length field = len(item.Body).
func Container(items []Msg) []byte {
	b := append(le32(CrcMsgContainer), le32(uint32(len(items)))...)
	for _, it := range items {
		b = append(b, le64(uint64(it.MsgID))...)
		b = append(b, le32(uint32(it.SeqNo))...)
		b = append(b, le32(uint32(len(it.Body)))...)
		b = append(b, it.Body...)
	}
	return b
}

// Pong is pong#347773c5 msg_id:long ping_id:long.
func Pong(msgID, pingID int64) []byte { return Object(&objects.Pong{MsgID: msgID, PingID: pingID}) }

// MsgsAck is msgs_ack#62d6b459 msg_ids:Vector<long>.
func MsgsAck(ids ...int64) []byte { return Object(&objects.MsgsAck{MsgIDs: ids}) }

// NewSessionCreated is new_session_created#9ec20908.
func NewSessionCreated(firstMsgID, uniqueID, serverSalt int64) []byte {
	return Object(&objects.NewSessionCreated{FirstMsgID: firstMsgID, UniqueID: uniqueID, ServerSalt: serverSalt})
}

// BadServerSalt is bad_server_salt#edab447b.
func BadServerSalt(badMsgID int64, badSeqNo, code int32, newSalt int64) []byte {
	return Object(&objects.BadServerSalt{BadMsgID: badMsgID, BadMsgSeqNo: badSeqNo, ErrorCode: code, NewSalt: newSalt})
}

// BadMsgNotification is bad_msg_notification#a7eff811.
func BadMsgNotification(badMsgID int64, badSeqNo, code int32) []byte {
	return Object(&objects.BadMsgNotification{BadMsgID: badMsgID, BadMsgSeqNo: badSeqNo, Code: code})
}

// FutureSalts is future_salts#ae500895 (a registered object that is not handled specially by
// the client: handy as an "arbitrary update").
func FutureSalts(reqMsgID int64, now int32, salts ...*objects.FutureSalt) []byte {
	return Object(&objects.FutureSalts{ReqMsgID: reqMsgID, Now: now, Salts: salts})
}

// AckedIDs returns the ids named by a msgs_ack frame (nil if the frame is something else).
func AckedIDs(f Frame) []int64 {
	if a, ok := f.Obj.(*objects.MsgsAck); ok {
		return a.MsgIDs
	}
	return nil
}

// IsContentRelated is the protocol's classification of a client message by constructor:
// everything except msgs_ack (and containers, which this client never sends) needs an
// acknowledgement and must carry an odd seq_no.
func IsContentRelated(f Frame) bool { return f.Crc != CrcMsgsAck && f.Crc != CrcMsgContainer }

// ---- rpc_error answers ---------------------------------------------------------------------------------------

// realErrors: (code, text) pairs real servers send (core.telegram.org/api/errors and what clients meet in the
// field); "%d" carries a number.  PHONE_MIGRATE is left out: the client acts on it (C17 is about that).
var realErrors = []struct {
	Code int32
	Text string
}{
	{-503, "Timeout"}, {500, "INTERNAL"}, {500, "RPC_CALL_FAIL"}, {420, "FLOOD_WAIT_%d"}, {420, "SLOWMODE_WAIT_%d"},
	{401, "AUTH_KEY_UNREGISTERED"}, {401, "SESSION_REVOKED"}, {401, "SESSION_PASSWORD_NEEDED"}, {403, "CHAT_WRITE_FORBIDDEN"},
	{406, "AUTH_KEY_DUPLICATED"}, {400, "PEER_ID_INVALID"}, {400, "FILE_PART_%d_MISSING"}, {303, "FILE_MIGRATE_%d"},
	{303, "NETWORK_MIGRATE_%d"}, {303, "USER_MIGRATE_%d"}, {400, "MSG_WAIT_FAILED"}, {500, "Timeout"}, {-500, "No workers running"},
	{400, "CONNECTION_NOT_INITED"}, {-404, "AUTH_KEY_INVALID"}, {400, "INPUT_METHOD_INVALID_%d"}, {0, "OK"}, {2147483647, "X"}, {-2147483648, "Y_%d"},
}

// ErrOf is the rpc_error answering the request with token p: for three tokens out of four the synthetic
// (400 + p mod 100, "VERIF_<p>"), which names the request it answers; for the fourth a real-world error.
func ErrOf(p int64) (int32, string) {
	if p%4 != 3 {
		return int32(400 + p%100), "VERIF_" + strconv.FormatInt(p, 10)
	}
	e := realErrors[int((p/4)%int64(len(realErrors)))]
	if strings.Contains(e.Text, "%d") {
		return e.Code, fmt.Sprintf(e.Text, p%100000+1)
	}
	return e.Code, e.Text
}

// IsErrOf: does (code, message) - as the client's error value shows them, the number possibly replaced by X and
// moved aside - stand for ErrOf(p)?
func IsErrOf(p int64, code int, message string) bool {
	c, t := ErrOf(p)
	if int(c) != code {
		return false
	}
	if message == t {
		return true
	}
	// NAME_<n>[_TAIL] shown as NAME_X[_TAIL]
	num := strconv.FormatInt(p%100000+1, 10)
	return p%4 == 3 && strings.Contains(t, num) && message == strings.Replace(t, num, "X", 1)
}
