// Package refserver is an in-process MTProto reference server for an ALREADY KEYED session.
//
// It listens on loopback TCP, detects the transport mode with the repository's own
// internal/mode package (the client uses "intermediate"), opens and seals encrypted
// packets with the repository's own aes_ige code used in the server direction
// (ige.VerifEncryptDir / VerifDecryptDir, build tag verif; that code is verified separately
// under C03/C04/C05), decodes message bodies with the repository's tl package, logs every
// received frame in arrival order and sends whatever the test scripts: see README.md.
//
// No key exchange is implemented: the harness writes a session file (auth key, hash, salt,
// address) with the repository's own session package, so that mtproto.NewMTProto starts in
// the `encrypted` state.
package refserver

import (
	"bytes"
	"crypto/sha1"
	"encoding/base64"
	"encoding/binary"
	"encoding/json"
	"errors"
	"fmt"
	"io"
	"net"
	"os"
	"sync"
	"time"

	ige "github.com/xelaj/mtproto/internal/aes_ige"
	"github.com/xelaj/mtproto/internal/encoding/tl"
	"github.com/xelaj/mtproto/internal/mode"
)

// Frame is one client-to-server message as the server saw it.
type Frame struct {
	Index     int   // position in the log (arrival order over all connections)
	Conn      int   // connection generation (1 = first accepted connection)
	Plain     bool  // auth_key_id = 0 (unencrypted envelope); only MsgID/Body are set then
	Salt      int64 // server salt field of the envelope
	SessionID int64
	MsgID     int64
	SeqNo     int32
	Body      []byte    // TL bytes of the message
	Crc       uint32    // first word of Body (0 if shorter than 4 bytes)
	Obj       tl.Object // Body decoded with tl.DecodeUnknownObject (nil if that failed)
	DecodeErr string
	OpenErr   string // non-empty if the packet could not be opened (wrong key id, bad msg_key, short)
	At        time.Time
}

// Msg is one server-to-client message: the test chooses id, seq_no and body bytes.
type Msg struct {
	MsgID int64
	SeqNo int32
	Body  []byte
}

// Options configure New. Zero values are replaced by defaults.
type Options struct {
	AuthKey []byte // 256 bytes; default: deterministic from Seed
	Salt    int64  // salt written to the session file; default derived from Seed
	Seed    uint64
	// FirstMsgID is the base of NextMsgID (default 0x5f000000<<32). Ids handed out are
	// base + 4k + 1 (answers) or + 3 (notifications), strictly increasing.
	FirstMsgID int64
}

// Server is the reference server. All methods are safe for concurrent use.
type Server struct {
	ln      net.Listener
	authKey []byte
	keyID   []byte
	salt    int64

	mu      sync.Mutex
	cond    *sync.Cond
	frames  []Frame
	conns   int
	cur     *conn
	session int64
	nextID  int64
	sent    int
	closed  bool
	onFrame func(Frame)
}

type conn struct {
	c    net.Conn
	m    mode.Mode
	gen  int
	wmu  sync.Mutex
	dead bool
}

// New starts a server on 127.0.0.1 (port chosen by the kernel).
func New(o Options) (*Server, error) {
	ln, err := net.Listen("tcp", "127.0.0.1:0")
	if err != nil {
		return nil, err
	}
	s := &Server{ln: ln}
	s.cond = sync.NewCond(&s.mu)
	s.authKey = o.AuthKey
	if s.authKey == nil {
		s.authKey = make([]byte, 256)
		x := o.Seed*0x9e3779b97f4a7c15 + 0x1234567
		for i := range s.authKey {
			x ^= x << 13
			x ^= x >> 7
			x ^= x << 17
			s.authKey[i] = byte(x >> 24)
		}
	}
	if len(s.authKey) != 256 {
		ln.Close()
		return nil, errors.New("refserver: auth key must be 256 bytes")
	}
	h := sha1.Sum(s.authKey)
	s.keyID = h[12:20]
	s.salt = o.Salt
	if s.salt == 0 {
		s.salt = int64(o.Seed*0x2545f4914f6cdd1d | 1)
	}
	s.nextID = o.FirstMsgID
	if s.nextID == 0 {
		s.nextID = 0x5f000000 << 32
	}
	go s.acceptLoop()
	return s, nil
}

// Addr is "127.0.0.1:port".
func (s *Server) Addr() string { return s.ln.Addr().String() }

// AuthKey returns the 256-byte key shared with the client.
func (s *Server) AuthKey() []byte { return append([]byte(nil), s.authKey...) }

// AuthKeyID is sha1(key)[12:20].
func (s *Server) AuthKeyID() []byte { return append([]byte(nil), s.keyID...) }

// Salt is the salt written by WriteSession (the server itself never checks salts:
// the test decides when to answer bad_server_salt).
func (s *Server) Salt() int64 { return s.salt }

// WriteSession stores (key, key id, salt, server address) at path with the repository's own
// session.NewFromFile(path).Store, so that NewMTProto(Config{AuthKeyFile: path}) starts keyed.
// The directory of path must exist (and path must contain a directory part: see C12).
func (s *Server) WriteSession(path string) error {
	// written by hand (the file format of internal/session/file.go: JSON, base64 fields, salt as 8 bytes little
	// endian), NOT through the library's Store: the set-up must not depend on the code under test
	var salt [8]byte
	binary.LittleEndian.PutUint64(salt[:], uint64(s.salt))
	data, err := json.Marshal(map[string]string{
		"key":      base64.StdEncoding.EncodeToString(s.AuthKey()),
		"hash":     base64.StdEncoding.EncodeToString(s.AuthKeyID()),
		"salt":     base64.StdEncoding.EncodeToString(salt[:]),
		"hostname": s.Addr(),
	})
	if err != nil {
		return err
	}
	return os.WriteFile(path, data, 0o600)
}

// OnFrame installs a callback run (on the connection's reader goroutine) for every frame
// after it has been logged. Useful for auto-responders; nil removes it.
func (s *Server) OnFrame(f func(Frame)) {
	s.mu.Lock()
	s.onFrame = f
	s.mu.Unlock()
}

func (s *Server) acceptLoop() {
	for {
		c, err := s.ln.Accept()
		if err != nil {
			return
		}
		if tc, ok := c.(*net.TCPConn); ok {
			_ = tc.SetNoDelay(true)
		}
		s.mu.Lock()
		s.conns++
		cn := &conn{c: c, gen: s.conns}
		s.mu.Unlock()
		go s.serve(cn)
	}
}

type fullReader struct{ c net.Conn }

// the repository's mode readers call Read once per field and expect it to be filled
func (f fullReader) Read(p []byte) (int, error)  { return io.ReadFull(f.c, p) }
func (f fullReader) Write(p []byte) (int, error) { return f.c.Write(p) }

func (s *Server) serve(cn *conn) {
	m, err := mode.Detect(fullReader{cn.c})
	if err != nil {
		cn.c.Close()
		return
	}
	cn.m = m
	s.mu.Lock()
	s.cur = cn
	s.cond.Broadcast()
	s.mu.Unlock()
	for {
		data, err := m.ReadMsg()
		if err != nil {
			s.mu.Lock()
			cn.dead = true
			s.cond.Broadcast()
			s.mu.Unlock()
			cn.c.Close()
			return
		}
		f := s.open(data)
		f.Conn = cn.gen
		f.At = time.Now()
		s.mu.Lock()
		f.Index = len(s.frames)
		s.frames = append(s.frames, f)
		if !f.Plain && f.OpenErr == "" {
			s.session = f.SessionID
		}
		cb := s.onFrame
		s.cond.Broadcast()
		s.mu.Unlock()
		if cb != nil {
			cb(f)
		}
	}
}

// open is the server side of messages.Encrypted.Serialize / Unencrypted.Serialize.
func (s *Server) open(data []byte) Frame {
	var f Frame
	if len(data) < 8 {
		f.OpenErr = "short packet"
		f.Body = data
		return f
	}
	if binary.LittleEndian.Uint64(data[:8]) == 0 {
		f.Plain = true
		if len(data) < 20 {
			f.OpenErr = "short plain packet"
			return f
		}
		f.MsgID = int64(binary.LittleEndian.Uint64(data[8:16]))
		n := int(binary.LittleEndian.Uint32(data[16:20]))
		if n < 0 || 20+n > len(data) {
			f.OpenErr = "plain length field out of range"
			return f
		}
		f.Body = data[20 : 20+n]
		s.decodeBody(&f)
		return f
	}
	if !bytes.Equal(data[:8], s.keyID) {
		f.OpenErr = "unknown auth_key_id"
		return f
	}
	if len(data) < 24+32 || (len(data)-24)%16 != 0 {
		f.OpenErr = "bad encrypted length"
		return f
	}
	msgKey := data[8:24]
	plain, err := ige.VerifDecryptDir(data[24:], s.authKey, msgKey, false)
	if err != nil {
		f.OpenErr = "decrypt: " + err.Error()
		return f
	}
	f.Salt = int64(binary.LittleEndian.Uint64(plain[0:8]))
	f.SessionID = int64(binary.LittleEndian.Uint64(plain[8:16]))
	f.MsgID = int64(binary.LittleEndian.Uint64(plain[16:24]))
	f.SeqNo = int32(binary.LittleEndian.Uint32(plain[24:28]))
	n := int(int32(binary.LittleEndian.Uint32(plain[28:32])))
	if n < 0 || 32+n > len(plain) {
		f.OpenErr = "length field out of range"
		return f
	}
	h := sha1.Sum(plain[:32+n])
	if !bytes.Equal(h[4:20], msgKey) {
		f.OpenErr = "msg_key mismatch"
		return f
	}
	f.Body = plain[32 : 32+n]
	s.decodeBody(&f)
	return f
}

func (s *Server) decodeBody(f *Frame) {
	if len(f.Body) >= 4 {
		f.Crc = binary.LittleEndian.Uint32(f.Body)
	}
	defer func() {
		if r := recover(); r != nil {
			f.Obj = nil
			f.DecodeErr = fmt.Sprint("panic: ", r)
		}
	}()
	obj, err := tl.DecodeUnknownObject(f.Body)
	if err != nil {
		f.DecodeErr = err.Error()
		return
	}
	f.Obj = obj
}

// Frames returns a copy of the log.
func (s *Server) Frames() []Frame {
	s.mu.Lock()
	defer s.mu.Unlock()
	return append([]Frame(nil), s.frames...)
}

// NumFrames is len(Frames()).
func (s *Server) NumFrames() int {
	s.mu.Lock()
	defer s.mu.Unlock()
	return len(s.frames)
}

func (s *Server) waitUntil(d time.Duration, ok func() bool) bool {
	deadline := time.Now().Add(d)
	t := time.AfterFunc(d, func() { s.mu.Lock(); s.cond.Broadcast(); s.mu.Unlock() })
	defer t.Stop()
	for !ok() {
		if time.Now().After(deadline) {
			return false
		}
		s.cond.Wait()
	}
	return true
}

// WaitFrames blocks until at least n frames have been logged (or the timeout passes).
func (s *Server) WaitFrames(n int, d time.Duration) ([]Frame, error) {
	s.mu.Lock()
	defer s.mu.Unlock()
	if !s.waitUntil(d, func() bool { return len(s.frames) >= n }) {
		return append([]Frame(nil), s.frames...), fmt.Errorf("refserver: %d frames after %v, want %d", len(s.frames), d, n)
	}
	return append([]Frame(nil), s.frames...), nil
}

// WaitConn blocks until the gen-th connection (1-based) has announced its transport mode.
func (s *Server) WaitConn(gen int, d time.Duration) error {
	s.mu.Lock()
	defer s.mu.Unlock()
	if !s.waitUntil(d, func() bool { return s.cur != nil && s.cur.gen >= gen }) {
		return fmt.Errorf("refserver: connection %d did not arrive within %v", gen, d)
	}
	return nil
}

// Conns is the number of connections accepted so far.
func (s *Server) Conns() int {
	s.mu.Lock()
	defer s.mu.Unlock()
	return s.conns
}

// NextMsgID hands out a fresh, strictly increasing server msg_id: ≡ 1 mod 4 for an answer
// to a client message, ≡ 3 mod 4 for a notification (answer=false).
func (s *Server) NextMsgID(answer bool) int64 {
	s.mu.Lock()
	defer s.mu.Unlock()
	s.nextID += 4
	if answer {
		return s.nextID + 1
	}
	return s.nextID + 3
}

// Seal builds the encrypted packet for m as the client expects it (server-to-client key
// derivation), using the session id of the last frame received.
func (s *Server) Seal(m Msg) ([]byte, error) {
	s.mu.Lock()
	sess := s.session
	s.mu.Unlock()
	return s.SealWith(m, s.salt, sess)
}

// SealWith is Seal with explicit salt and session id fields.
func (s *Server) SealWith(m Msg, salt, sessionID int64) ([]byte, error) {
	plain := make([]byte, 32, 32+len(m.Body))
	binary.LittleEndian.PutUint64(plain[0:], uint64(salt))
	binary.LittleEndian.PutUint64(plain[8:], uint64(sessionID))
	binary.LittleEndian.PutUint64(plain[16:], uint64(m.MsgID))
	binary.LittleEndian.PutUint32(plain[24:], uint32(m.SeqNo))
	binary.LittleEndian.PutUint32(plain[28:], uint32(len(m.Body)))
	plain = append(plain, m.Body...)
	msgKey, enc, err := ige.VerifEncryptDir(plain, s.authKey, true)
	if err != nil {
		return nil, err
	}
	out := make([]byte, 0, 24+len(enc))
	out = append(out, s.keyID...)
	out = append(out, msgKey...)
	out = append(out, enc...)
	return out, nil
}

// Send seals m and writes it as one transport frame on the current connection.
func (s *Server) Send(m Msg) error {
	pkt, err := s.Seal(m)
	if err != nil {
		return err
	}
	return s.SendPacket(pkt)
}

// SendPlain writes an unencrypted envelope (auth_key_id = 0).
func (s *Server) SendPlain(msgID int64, body []byte) error {
	pkt := make([]byte, 20, 20+len(body))
	binary.LittleEndian.PutUint64(pkt[8:], uint64(msgID))
	binary.LittleEndian.PutUint32(pkt[16:], uint32(len(body)))
	return s.SendPacket(append(pkt, body...))
}

// SendPacket writes arbitrary bytes as one transport frame (e.g. a 4-byte transport error
// code, a truncated or corrupted packet).
func (s *Server) SendPacket(pkt []byte) error {
	s.mu.Lock()
	cn := s.cur
	s.mu.Unlock()
	if cn == nil || cn.dead {
		return errors.New("refserver: no live connection")
	}
	cn.wmu.Lock()
	defer cn.wmu.Unlock()
	if err := cn.m.WriteMsg(pkt); err != nil {
		return err
	}
	s.mu.Lock()
	s.sent++
	s.mu.Unlock()
	return nil
}

// Sent is the number of transport frames written so far.
func (s *Server) Sent() int {
	s.mu.Lock()
	defer s.mu.Unlock()
	return s.sent
}

// CloseConn closes the current connection in an orderly way (the client reads EOF).
func (s *Server) CloseConn() {
	s.mu.Lock()
	cn := s.cur
	s.mu.Unlock()
	if cn != nil {
		cn.c.Close()
	}
}

// Close stops listening and closes the current connection.
func (s *Server) Close() {
	s.mu.Lock()
	s.closed = true
	cn := s.cur
	s.mu.Unlock()
	s.ln.Close()
	if cn != nil {
		cn.c.Close()
	}
}
