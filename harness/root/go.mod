module github.com/xelaj/mtproto/verifharness

go 1.13

require (
	github.com/xelaj/mtproto v0.0.0
	verifcommon v0.0.0
)

replace github.com/xelaj/mtproto => /repo

replace verifcommon => ../common
