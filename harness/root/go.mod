module github.com/xelaj/mtproto/verifharness

go 1.13

require (
	github.com/pkg/errors v0.9.1
	github.com/xelaj/errs v0.0.0-20200831133608-d1c11863e019
	github.com/xelaj/mtproto v0.0.0
	verifcommon v0.0.0
)

replace github.com/xelaj/mtproto => /repo

replace verifcommon => ../common
