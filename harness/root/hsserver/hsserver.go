// Package hsserver is an in-process MTProto server for the UNENCRYPTED key-exchange phase
// (properties C06 / C07), written from the specification
// https://core.telegram.org/mtproto/auth_key (the historical RSA scheme this client implements:
// data_with_hash = SHA1(data) + data + padding, 255 bytes, raw RSA) and
// https://core.telegram.org/mtproto/description_v1 for the first encrypted request.
//
// It deliberately shares NO code with the repository under test: the intermediate transport,
// the unencrypted envelope, the TL layouts of the nine handshake objects, SHA-1/AES-256-IGE
// (crypto/sha1, crypto/aes + the textbook IGE recurrences), the temp-key formula, RSA/DH
// (math/big) and the MTProto 1.0 envelope are all written out here.  Everything the server
// receives and sends is logged byte for byte; the harness compares the log with the Coq model.
//
// A Fault alters ONE outgoing field (or constructor) of an otherwise conformant exchange.
package hsserver

import (
	"bytes"
	"crypto/aes"
	"crypto/sha1"
	"encoding/binary"
	"errors"
	"fmt"
	"io"
	"math/big"
	"net"
	"strings"
	"sync"
	"time"
)

// constructor ids (schemes/mtproto.tl)
const (
	CrcReqPQ            = 0x60469778
	CrcReqPQMulti       = 0xbe7e8ef1
	CrcResPQ            = 0x05162463
	CrcPQInnerData      = 0x83c95aec
	CrcReqDHParams      = 0xd712e4be
	CrcServerDHParamsOk = 0xd0e8075c
	CrcServerDHFail     = 0x79cb045d
	CrcServerDHInner    = 0xb5890dba
	CrcClientDHInner    = 0x6643b654
	CrcSetClientDH      = 0xf5045f1f
	CrcDHGenOk          = 0x3bcbf734
	CrcDHGenRetry       = 0x46dc1fb9
	CrcDHGenFail        = 0xa69dae02
	CrcVector           = 0x1cb5c415
	CrcPong             = 0x347773c5
)

// Params are the choices of a conformant server.
type Params struct {
	ServerNonce  []byte   // 16 bytes
	PQ           []byte   // big-endian bytes of p*q as sent (normally 8 bytes, minimal)
	P, Q         *big.Int // primes, P < Q
	N, E, D      *big.Int // RSA key; the fingerprint of (N,E) is offered at index FpIndex
	ExtraFps     []uint64 // other fingerprints offered
	FpIndex      int      // position of the real fingerprint among the offered ones
	G            int32
	DHPrime      *big.Int
	A            *big.Int // server's DH secret
	ServerTime   int32
	AnswerPad    []byte // 0..15 bytes appended to answer_with_hash (must align to 16)
	GAWidth      int    // 0: g_a sent as minimal big-endian string; >0: left-padded to this width
	DHPrimeWidth int    // same for dh_prime
	FirstMsgID   int64
}

// Fault: Target names the field, Kind the corruption.
//
//	Target: respq.{nonce,server_nonce,pq,fingerprints,ctor}  dhok.{nonce,server_nonce,cipher,hash,pad,ctor}
//	        inner.{nonce,server_nonce,g,dh_prime,g_a,server_time,ctor}  genok.{nonce,server_nonce,hash,ctor}
//	Kind:   flip (bit Pos of the field's bytes) | random (Rand) | other (the other nonce) | zero | shr8 | shl8 (bytes moved) |
//	        ctor:<name> | len:<n> (padding / truncation variants) | none-match (fingerprints)
//	Adopt:  the server itself continues with the altered value (for fields the client cannot check:
//	        server_nonce and pq of resPQ); otherwise the server keeps its own value.
type Fault struct {
	Target string
	Kind   string
	Pos    int
	Rand   []byte
	Adopt  bool
}

// Event is one entry of the server's log.
type Event struct {
	Dir   string // "recv-plain", "send-plain", "recv-enc", "reject", "info"
	Bytes []byte // TL body for plain messages; whole packet for recv-enc
	MsgID int64
	Note  string
}

// Result is what the server derived.
type Result struct {
	NewNonce    []byte
	ClientNonce []byte
	AuthKey     []byte // 256 bytes
	KeyID       []byte
	Salt        []byte // 8 bytes as on the wire (little-endian int64 pattern)
	NonceHash1  []byte
	GA, GB      *big.Int
	RSABlock    []byte // the 255 decrypted bytes
	ClientPad   []byte // padding the client appended to client_DH_inner_data
	InnerPQ     []byte // p_q_inner_data TL bytes as recovered
	ClientInner []byte // client_DH_inner_data TL bytes as recovered
	Steps       int    // replies sent
	Rejected    string // non-empty: the (conformant part of the) server refused a client message
	// first encrypted request
	EncSeen   int
	EncOpened bool
	EncErr    string
	EncSalt   []byte
	EncSID    []byte
	EncMsgID  int64
	EncSeq    uint32
	EncBody   []byte
}

type Server struct {
	ln    net.Listener
	P     Params
	Fault *Fault

	mu     sync.Mutex
	cond   *sync.Cond
	events []Event
	res    Result
	nextID int64
	done   bool
	conn   net.Conn
	// state adopted through faults
	serverNonce []byte
	pq          []byte
}

func New(p Params, f *Fault) (*Server, error) {
	ln, err := net.Listen("tcp", "127.0.0.1:0")
	if err != nil {
		return nil, err
	}
	s := &Server{ln: ln, P: p, Fault: f}
	s.cond = sync.NewCond(&s.mu)
	s.nextID = p.FirstMsgID
	if s.nextID == 0 {
		s.nextID = 0x5f000000 << 32
	}
	s.serverNonce = append([]byte(nil), p.ServerNonce...)
	s.pq = append([]byte(nil), p.PQ...)
	go s.accept()
	return s, nil
}

func (s *Server) Addr() string { return s.ln.Addr().String() }

func (s *Server) Close() {
	s.ln.Close()
	s.mu.Lock()
	c := s.conn
	s.done = true
	s.cond.Broadcast()
	s.mu.Unlock()
	if c != nil {
		c.Close()
	}
}

// CloseConn closes the (first) connection in an orderly way; the listener stays, and refuses whoever dials again
// ("second connection refused" in the event log).
func (s *Server) CloseConn() {
	s.mu.Lock()
	c := s.conn
	s.mu.Unlock()
	if c != nil {
		c.Close()
	}
}

func (s *Server) Events() []Event {
	s.mu.Lock()
	defer s.mu.Unlock()
	return append([]Event(nil), s.events...)
}

func (s *Server) Result() Result {
	s.mu.Lock()
	defer s.mu.Unlock()
	return s.res
}

// Wait blocks until ok(result) or the timeout; it returns early when the server rejected a message.
func (s *Server) Wait(d time.Duration, ok func(Result) bool) bool {
	deadline := time.Now().Add(d)
	t := time.AfterFunc(d, func() { s.mu.Lock(); s.cond.Broadcast(); s.mu.Unlock() })
	defer t.Stop()
	s.mu.Lock()
	defer s.mu.Unlock()
	for !ok(s.res) {
		if s.res.Rejected != "" || time.Now().After(deadline) {
			return false
		}
		s.cond.Wait()
	}
	return true
}

func (s *Server) logf(dir string, b []byte, id int64, note string) {
	s.mu.Lock()
	s.events = append(s.events, Event{Dir: dir, Bytes: append([]byte(nil), b...), MsgID: id, Note: note})
	s.cond.Broadcast()
	s.mu.Unlock()
}

func (s *Server) reject(why string) {
	s.mu.Lock()
	if s.res.Rejected == "" {
		s.res.Rejected = why
	}
	s.events = append(s.events, Event{Dir: "reject", Note: why})
	s.cond.Broadcast()
	s.mu.Unlock()
}

func (s *Server) accept() {
	for {
		c, err := s.ln.Accept()
		if err != nil {
			return
		}
		if tc, ok := c.(*net.TCPConn); ok {
			_ = tc.SetNoDelay(true)
		}
		s.mu.Lock()
		first := s.conn == nil
		if first {
			s.conn = c
		}
		s.mu.Unlock()
		if !first {
			s.logf("info", nil, 0, "second connection refused")
			c.Close()
			continue
		}
		go s.serve(c)
	}
}

// intermediate transport: 0xeeeeeeee once, then <len:u32 le><payload>
func (s *Server) serve(c net.Conn) {
	var tag [4]byte
	if _, err := io.ReadFull(c, tag[:]); err != nil {
		return
	}
	if binary.LittleEndian.Uint32(tag[:]) != 0xeeeeeeee {
		s.reject(fmt.Sprintf("transport announcement %x is not intermediate", tag))
		return
	}
	for {
		var lb [4]byte
		if _, err := io.ReadFull(c, lb[:]); err != nil {
			return
		}
		n := binary.LittleEndian.Uint32(lb[:])
		if n > 1<<24 {
			s.reject("oversized frame")
			return
		}
		pkt := make([]byte, n)
		if _, err := io.ReadFull(c, pkt); err != nil {
			return
		}
		s.handle(c, pkt)
	}
}

func (s *Server) sendFrame(c net.Conn, payload []byte) {
	buf := make([]byte, 4, 4+len(payload))
	binary.LittleEndian.PutUint32(buf, uint32(len(payload)))
	buf = append(buf, payload...)
	_, _ = c.Write(buf)
}

func (s *Server) sendPlain(c net.Conn, body []byte) {
	s.mu.Lock()
	s.nextID += 4
	id := s.nextID + 1
	s.res.Steps++
	step := s.res.Steps
	s.mu.Unlock()
	// replies that cannot be read at all: Target raw1 / raw2 / raw3 (the answer to the 1st / 2nd / 3rd request)
	if f := s.fault(fmt.Sprintf("raw%d", step)); f != nil {
		switch f.Kind {
		case "unknown_ctor":
			body = cat(U32(0xdeadbeef), body[4:])
		case "truncated":
			body = body[:len(body)-8]
		case "empty":
			body = nil
		case "err404":
			// the 4-byte transport error frame real servers send: int32 -404
			s.logf("send-err", U32(0xfffffe6c), 0, "")
			s.sendFrame(c, U32(0xfffffe6c))
			return
		case "close":
			s.logf("close", nil, 0, "")
			c.Close()
			return
		}
	}
	pkt := make([]byte, 20, 20+len(body))
	binary.LittleEndian.PutUint64(pkt[8:], uint64(id))
	binary.LittleEndian.PutUint32(pkt[16:], uint32(len(body)))
	pkt = append(pkt, body...)
	s.logf("send-plain", body, id, "")
	s.sendFrame(c, pkt)
}

func (s *Server) handle(c net.Conn, pkt []byte) {
	if len(pkt) < 8 {
		s.reject("short packet")
		return
	}
	if binary.LittleEndian.Uint64(pkt[:8]) != 0 {
		s.handleEncrypted(c, pkt)
		return
	}
	if len(pkt) < 20 {
		s.reject("short plain packet")
		return
	}
	id := int64(binary.LittleEndian.Uint64(pkt[8:16]))
	n := int(binary.LittleEndian.Uint32(pkt[16:20]))
	if n != len(pkt)-20 {
		s.reject("plain envelope: message_data_length does not match")
		return
	}
	body := pkt[20:]
	if len(body) >= 4 && binary.LittleEndian.Uint32(body) == 0x7abe77ec {
		// a ping sent in the clear: the harness's probe request after an abandoned key exchange
		s.logf("recv-plain-post", body, id, "")
		return
	}
	s.logf("recv-plain", body, id, "")
	if id&3 != 0 {
		s.reject("client msg_id not divisible by 4")
		return
	}
	if len(body) < 4 {
		s.reject("empty body")
		return
	}
	switch binary.LittleEndian.Uint32(body) {
	case CrcReqPQ, CrcReqPQMulti:
		s.onReqPQ(c, body)
	case CrcReqDHParams:
		s.onReqDH(c, body)
	case CrcSetClientDH:
		s.onSetClientDH(c, body)
	default:
		s.reject(fmt.Sprintf("unexpected constructor %08x", binary.LittleEndian.Uint32(body)))
	}
}

// ---------------------------------------------------------------------------------------------
// TL helpers (written from the TL serialisation rules)

type rd struct {
	b   []byte
	err error
}

func (r *rd) take(n int) []byte {
	if r.err != nil {
		return make([]byte, n)
	}
	if len(r.b) < n {
		r.err = errors.New("short TL data")
		return make([]byte, n)
	}
	x := r.b[:n]
	r.b = r.b[n:]
	return x
}
func (r *rd) u32() uint32 { return binary.LittleEndian.Uint32(r.take(4)) }
func (r *rd) u64() uint64 { return binary.LittleEndian.Uint64(r.take(8)) }
func (r *rd) str() []byte {
	h := r.take(1)[0]
	var n, used int
	if h == 254 {
		l := r.take(3)
		n = int(l[0]) | int(l[1])<<8 | int(l[2])<<16
		used = 4 + n
	} else {
		n = int(h)
		used = 1 + n
	}
	v := r.take(n)
	pad := r.take((4 - used%4) % 4)
	for _, x := range pad {
		if x != 0 && r.err == nil {
			// the specification asks for zero padding; be strict so that a sloppy encoder is noticed
			r.err = errors.New("non-zero TL string padding")
		}
	}
	return v
}

func U32(x uint32) []byte { b := make([]byte, 4); binary.LittleEndian.PutUint32(b, x); return b }
func U64(x uint64) []byte { b := make([]byte, 8); binary.LittleEndian.PutUint64(b, x); return b }

// TLBytes serialises a TL string/bytes value.
func TLBytes(v []byte) []byte {
	var out []byte
	if len(v) < 254 {
		out = append(out, byte(len(v)))
	} else {
		out = append(out, 254, byte(len(v)), byte(len(v)>>8), byte(len(v)>>16))
	}
	out = append(out, v...)
	for len(out)%4 != 0 {
		out = append(out, 0)
	}
	return out
}

func cat(parts ...[]byte) []byte { return bytes.Join(parts, nil) }

func sha(b []byte) []byte { h := sha1.Sum(b); return h[:] }

// Fixed returns the big-endian bytes of n left-padded to w bytes (longer if it does not fit).
func Fixed(n *big.Int, w int) []byte {
	b := n.Bytes()
	if len(b) >= w {
		return b
	}
	return append(make([]byte, w-len(b)), b...)
}

// Fingerprint = 64 lower-order bits of SHA1 of the bare rsa_public_key n:string e:string
func Fingerprint(n, e *big.Int) uint64 {
	h := sha(cat(TLBytes(n.Bytes()), TLBytes(e.Bytes())))
	return binary.LittleEndian.Uint64(h[12:20])
}

// ---------------------------------------------------------------------------------------------
// AES-256-IGE, textbook recurrences over crypto/aes

func igeEnc(key, iv, data []byte) []byte {
	blk, _ := aes.NewCipher(key)
	out := make([]byte, len(data))
	cprev, pprev := iv[:16], iv[16:32]
	for i := 0; i+16 <= len(data); i += 16 {
		var t [16]byte
		for j := 0; j < 16; j++ {
			t[j] = data[i+j] ^ cprev[j]
		}
		blk.Encrypt(t[:], t[:])
		for j := 0; j < 16; j++ {
			out[i+j] = t[j] ^ pprev[j]
		}
		cprev, pprev = out[i:i+16], data[i:i+16]
	}
	return out
}

func igeDec(key, iv, data []byte) []byte {
	blk, _ := aes.NewCipher(key)
	out := make([]byte, len(data))
	cprev, pprev := iv[:16], iv[16:32]
	for i := 0; i+16 <= len(data); i += 16 {
		var t [16]byte
		for j := 0; j < 16; j++ {
			t[j] = data[i+j] ^ pprev[j]
		}
		blk.Decrypt(t[:], t[:])
		for j := 0; j < 16; j++ {
			out[i+j] = t[j] ^ cprev[j]
		}
		cprev, pprev = data[i:i+16], out[i:i+16]
	}
	return out
}

// TempKeys: tmp_aes_key / tmp_aes_iv from the raw 32-byte new_nonce and 16-byte server_nonce.
func TempKeys(newNonce, serverNonce []byte) (key, iv []byte) {
	h1 := sha(cat(newNonce, serverNonce))
	h2 := sha(cat(serverNonce, newNonce))
	h3 := sha(cat(newNonce, newNonce))
	return cat(h1, h2[:12]), cat(h2[12:], h3, newNonce[:4])
}

// IgeEnc / IgeDec exported for the harness (fault construction, independent checks).
func IgeEnc(key, iv, data []byte) []byte { return igeEnc(key, iv, data) }
func IgeDec(key, iv, data []byte) []byte { return igeDec(key, iv, data) }

// ---------------------------------------------------------------------------------------------
// fault application

func (s *Server) fault(target string) *Fault {
	if s.Fault != nil && s.Fault.Target == target {
		return s.Fault
	}
	return nil
}

// Corrupt applies kind flip/random/zero/other to a field's bytes (same length).
func Corrupt(f *Fault, v, other []byte) []byte {
	out := append([]byte(nil), v...)
	switch f.Kind {
	case "flip":
		if len(out) > 0 {
			p := f.Pos % (8 * len(out))
			out[p/8] ^= 1 << uint(p%8)
		}
	case "random":
		out = append([]byte(nil), f.Rand...)
		for len(out) < len(v) {
			out = append(out, f.Rand...)
		}
		out = out[:len(v)]
		if bytes.Equal(out, v) && len(out) > 0 {
			out[0] ^= 0x80
		}
	case "zero":
		for i := range out {
			out[i] = 0
		}
	case "other":
		out = append([]byte(nil), other...)
	case "set":
		out = append([]byte(nil), f.Rand...)
	case "shr8": // the same digits one byte further right: 00 | v[:n-1]  (the value divided by 256)
		if len(v) > 0 {
			out = append([]byte{0}, v[:len(v)-1]...)
		}
	case "shl8": // one byte further left: v[1:] | 00
		if len(v) > 0 {
			out = append(append([]byte(nil), v[1:]...), 0)
		}
	}
	return out
}

func (s *Server) field(target string, v, other []byte) []byte {
	if f := s.fault(target); f != nil {
		return Corrupt(f, v, other)
	}
	return v
}

// altBody builds the body for a constructor substitution fault at the given step.
func (s *Server) altBody(name string, nonce, srvNonce, newNonce, auxHash []byte) []byte {
	h := func(tag byte) []byte {
		if newNonce == nil {
			return make([]byte, 16)
		}
		if auxHash == nil {
			return sha(cat(newNonce))[4:20]
		}
		return sha(cat(newNonce, []byte{tag}, auxHash))[4:20]
	}
	// "<ctor>+hashN": the constructor carrying the hash that belongs to another answer
	if i := bytes.IndexByte([]byte(name), '+'); i >= 0 {
		tag := name[len(name)-1] - '0'
		crc := map[string]uint32{"dh_gen_ok": CrcDHGenOk, "dh_gen_retry": CrcDHGenRetry, "dh_gen_fail": CrcDHGenFail}[name[:i]]
		return cat(U32(crc), nonce, srvNonce, h(tag))
	}
	switch name {
	case "server_DH_params_fail":
		return cat(U32(CrcServerDHFail), nonce, srvNonce, h(0))
	case "dh_gen_retry":
		return cat(U32(CrcDHGenRetry), nonce, srvNonce, h(2))
	case "dh_gen_fail":
		return cat(U32(CrcDHGenFail), nonce, srvNonce, h(3))
	case "dh_gen_ok":
		return cat(U32(CrcDHGenOk), nonce, srvNonce, h(1))
	case "resPQ":
		return cat(U32(CrcResPQ), nonce, srvNonce, TLBytes(s.pq), U32(CrcVector), U32(1), U64(Fingerprint(s.P.N, s.P.E)))
	case "server_DH_params_ok":
		return cat(U32(CrcServerDHParamsOk), nonce, srvNonce, TLBytes(make([]byte, 32)))
	case "pong":
		return cat(U32(CrcPong), U64(1), U64(2))
	}
	return cat(U32(CrcPong), U64(1), U64(2))
}

// ---------------------------------------------------------------------------------------------
// step 1: req_pq -> resPQ

func (s *Server) onReqPQ(c net.Conn, body []byte) {
	r := &rd{b: body[4:]}
	nonce := append([]byte(nil), r.take(16)...)
	if r.err != nil || len(r.b) != 0 {
		s.reject("req_pq: bad layout")
		return
	}
	s.mu.Lock()
	s.res.ClientNonce = nonce
	s.mu.Unlock()

	if f := s.fault("respq.ctor"); f != nil {
		s.sendPlain(c, s.altBody(f.Kind[5:], nonce, s.serverNonce, nil, nil))
		return
	}
	srv := s.field("respq.server_nonce", s.serverNonce, nonce)
	pq := s.field("respq.pq", s.pq, nil)
	if f := s.fault("respq.server_nonce"); f != nil && f.Adopt {
		s.serverNonce = srv
	}
	if f := s.fault("respq.pq"); f != nil && f.Adopt {
		s.pq = pq
	}
	fps := make([]uint64, 0, len(s.P.ExtraFps)+1)
	real := Fingerprint(s.P.N, s.P.E)
	for i, x := range s.P.ExtraFps {
		if i == s.P.FpIndex {
			fps = append(fps, real)
		}
		fps = append(fps, x)
	}
	if s.P.FpIndex >= len(s.P.ExtraFps) {
		fps = append(fps, real)
	}
	if f := s.fault("respq.fingerprints"); f != nil {
		for i := range fps {
			if fps[i] == real {
				b := Corrupt(f, U64(real), nil)
				fps[i] = binary.LittleEndian.Uint64(b)
			}
		}
		if f.Kind == "empty" {
			fps = nil
		}
	}
	out := cat(U32(CrcResPQ), s.field("respq.nonce", nonce, s.serverNonce), srv, TLBytes(pq), U32(CrcVector), U32(uint32(len(fps))))
	for _, x := range fps {
		out = append(out, U64(x)...)
	}
	s.sendPlain(c, out)
}

// ---------------------------------------------------------------------------------------------
// step 2: req_DH_params -> server_DH_params_ok

func (s *Server) onReqDH(c net.Conn, body []byte) {
	r := &rd{b: body[4:]}
	nonce := r.take(16)
	srv := r.take(16)
	p := r.str()
	q := r.str()
	fp := r.u64()
	enc := r.str()
	if r.err != nil || len(r.b) != 0 {
		s.reject("req_DH_params: bad layout")
		return
	}
	cn := s.Result().ClientNonce
	if !bytes.Equal(nonce, cn) {
		s.reject("req_DH_params: nonce differs from req_pq")
		return
	}
	if !bytes.Equal(srv, s.serverNonce) {
		s.reject("req_DH_params: wrong server_nonce")
		return
	}
	pn, qn := new(big.Int).SetBytes(p), new(big.Int).SetBytes(q)
	pqn := new(big.Int).SetBytes(s.pq)
	adopted := s.Fault != nil && s.Fault.Target == "respq.pq" && s.Fault.Adopt
	if adopted {
		// the lying server accepts any ordered factorisation of the number it announced
		if new(big.Int).Mul(pn, qn).Cmp(pqn) != 0 || pn.Cmp(big.NewInt(1)) <= 0 || pn.Cmp(qn) > 0 {
			s.reject("req_DH_params: p*q != pq or not 1 < p <= q")
			return
		}
	} else if pn.Cmp(s.P.P) != 0 || qn.Cmp(s.P.Q) != 0 {
		s.reject(fmt.Sprintf("req_DH_params: p=%v q=%v are not the factors %v %v", pn, qn, s.P.P, s.P.Q))
		return
	}
	if len(p) > 0 && p[0] == 0 || len(q) > 0 && q[0] == 0 {
		s.logf("info", nil, 0, "p or q sent with a leading zero byte")
	}
	if fp != Fingerprint(s.P.N, s.P.E) {
		s.reject("req_DH_params: unknown public_key_fingerprint")
		return
	}
	if len(enc) != 256 {
		s.reject(fmt.Sprintf("req_DH_params: encrypted_data has %d bytes, not 256", len(enc)))
		return
	}
	cnum := new(big.Int).SetBytes(enc)
	if cnum.Cmp(s.P.N) >= 0 {
		s.reject("req_DH_params: encrypted_data >= modulus")
		return
	}
	m := new(big.Int).Exp(cnum, s.P.D, s.P.N)
	if m.BitLen() > 255*8 {
		s.reject("req_DH_params: RSA-decrypted value does not fit 255 bytes (garbage ciphertext)")
		return
	}
	block := Fixed(m, 255)
	// data_with_hash = SHA1(data) + data + padding: data is one TL object, find its end by parsing
	ir := &rd{b: block[20:]}
	if ir.u32() != CrcPQInnerData {
		s.reject("req_DH_params: decrypted block does not hold p_q_inner_data")
		return
	}
	ipq := ir.str()
	ip := ir.str()
	iq := ir.str()
	inonce := ir.take(16)
	isrv := ir.take(16)
	newNonce := append([]byte(nil), ir.take(32)...)
	if ir.err != nil {
		s.reject("req_DH_params: p_q_inner_data: bad layout")
		return
	}
	inner := block[20 : 255-len(ir.b)]
	if !bytes.Equal(sha(inner), block[:20]) {
		s.reject("req_DH_params: SHA1 of p_q_inner_data does not match")
		return
	}
	if !bytes.Equal(ipq, s.pq) || !bytes.Equal(ip, p) || !bytes.Equal(iq, q) || !bytes.Equal(inonce, cn) || !bytes.Equal(isrv, s.serverNonce) {
		s.reject("req_DH_params: p_q_inner_data fields differ from the outer ones")
		return
	}
	s.mu.Lock()
	s.res.NewNonce = newNonce
	s.res.RSABlock = block
	s.res.InnerPQ = append([]byte(nil), inner...)
	s.mu.Unlock()

	if f := s.fault("dhok.ctor"); f != nil {
		s.sendPlain(c, s.altBody(f.Kind[5:], cn, s.serverNonce, newNonce, nil))
		return
	}

	ga := new(big.Int).Exp(big.NewInt(int64(s.P.G)), s.P.A, s.P.DHPrime)
	s.mu.Lock()
	s.res.GA = ga
	s.mu.Unlock()
	gaB := ga.Bytes()
	if s.P.GAWidth > 0 {
		gaB = Fixed(ga, s.P.GAWidth)
	}
	dpB := s.P.DHPrime.Bytes()
	if s.P.DHPrimeWidth > 0 {
		dpB = Fixed(s.P.DHPrime, s.P.DHPrimeWidth)
	}
	var answer []byte
	if f := s.fault("inner.ctor"); f != nil {
		answer = s.altBody(f.Kind[5:], cn, s.serverNonce, newNonce, nil)
	} else {
		answer = cat(U32(CrcServerDHInner),
			s.field("inner.nonce", cn, s.serverNonce),
			s.field("inner.server_nonce", s.serverNonce, cn),
			s.field("inner.g", U32(uint32(s.P.G)), nil),
			TLBytes(s.field("inner.dh_prime", dpB, nil)),
			TLBytes(s.field("inner.g_a", gaB, nil)),
			s.field("inner.server_time", U32(uint32(s.P.ServerTime)), nil))
	}
	hash := s.field("dhok.hash", sha(answer), nil)
	pad := s.P.AnswerPad
	if f := s.fault("dhok.pad"); f != nil {
		pad = f.Rand
	}
	if f := s.fault("inner.ctor"); f != nil {
		// another object inside a well-formed envelope: pad it as the specification says
		pad = f.Rand[:(16-(20+len(answer))%16)%16]
	}
	plain := cat(hash, answer, pad)
	key, iv := TempKeys(newNonce, s.serverNonce)
	var ct []byte
	if len(plain)%16 == 0 {
		ct = igeEnc(key, iv, plain)
	} else {
		// only reachable through a padding fault: encrypt the aligned part, append the raw rest
		k := len(plain) / 16 * 16
		ct = cat(igeEnc(key, iv, plain[:k]), plain[k:])
	}
	ct = s.field("dhok.cipher", ct, nil)
	if f := s.fault("dhok.cipher"); f != nil && f.Kind[:3] == "len" {
		var n int
		fmt.Sscanf(f.Kind, "len:%d", &n)
		if n <= len(ct) {
			ct = ct[:n]
		} else {
			ct = cat(ct, make([]byte, n-len(ct)))
		}
	}
	s.sendPlain(c, cat(U32(CrcServerDHParamsOk),
		s.field("dhok.nonce", cn, s.serverNonce),
		s.field("dhok.server_nonce", s.serverNonce, cn),
		TLBytes(ct)))
}

// ---------------------------------------------------------------------------------------------
// step 3: set_client_DH_params -> dh_gen_ok

func (s *Server) onSetClientDH(c net.Conn, body []byte) {
	r := &rd{b: body[4:]}
	nonce := r.take(16)
	srv := r.take(16)
	enc := r.str()
	if r.err != nil || len(r.b) != 0 {
		s.reject("set_client_DH_params: bad layout")
		return
	}
	st := s.Result()
	if st.NewNonce == nil {
		s.reject("set_client_DH_params before req_DH_params")
		return
	}
	if !bytes.Equal(nonce, st.ClientNonce) || !bytes.Equal(srv, s.serverNonce) {
		s.reject("set_client_DH_params: wrong nonce / server_nonce")
		return
	}
	if len(enc) == 0 || len(enc)%16 != 0 {
		s.reject("set_client_DH_params: encrypted_data length not a positive multiple of 16")
		return
	}
	key, iv := TempKeys(st.NewNonce, s.serverNonce)
	plain := igeDec(key, iv, enc)
	ir := &rd{b: plain[20:]}
	if ir.u32() != CrcClientDHInner {
		s.reject("set_client_DH_params: decrypted data is not client_DH_inner_data")
		return
	}
	inonce := ir.take(16)
	isrv := ir.take(16)
	retry := ir.u64()
	gbB := ir.str()
	if ir.err != nil {
		s.reject("client_DH_inner_data: bad layout")
		return
	}
	inner := plain[20 : len(plain)-len(ir.b)]
	if len(ir.b) > 15 {
		s.reject("client_DH_inner_data: more than 15 padding bytes")
		return
	}
	if !bytes.Equal(sha(inner), plain[:20]) {
		s.reject("client_DH_inner_data: SHA1 does not match")
		return
	}
	if !bytes.Equal(inonce, st.ClientNonce) || !bytes.Equal(isrv, s.serverNonce) || retry != 0 {
		s.reject("client_DH_inner_data: wrong nonce / server_nonce / retry_id")
		return
	}
	gb := new(big.Int).SetBytes(gbB)
	authKey := Fixed(new(big.Int).Exp(gb, s.P.A, s.P.DHPrime), 256)
	kh := sha(authKey)
	aux := kh[:8]
	nh1 := sha(cat(st.NewNonce, []byte{1}, aux))[4:20]
	salt := make([]byte, 8)
	for i := range salt {
		salt[i] = st.NewNonce[i] ^ s.serverNonce[i]
	}
	s.mu.Lock()
	s.res.GB = gb
	s.res.AuthKey = authKey
	s.res.KeyID = kh[12:20]
	s.res.Salt = salt
	s.res.NonceHash1 = nh1
	s.res.ClientPad = append([]byte(nil), ir.b...)
	s.res.ClientInner = append([]byte(nil), inner...)
	s.mu.Unlock()

	if f := s.fault("genok.inject"); f != nil {
		// The server is the DH peer: it already knows the key the client is about to adopt.  BEFORE its answer to
		// set_client_DH_params it sends a notification (Kind: enc:<chatter kind> sealed with that key as MTProto 1.0
		// prescribes for server -> client, or plain:<chatter kind>), then a dh_gen_ok whose new_nonce_hash1 is wrong.
		// To the key exchange the notification is the answer to its third request - a reply of the wrong kind; the
		// exchange must be abandoned and nothing may be stored, however well the notification decrypts.
		kind := f.Kind[strings.Index(f.Kind, ":")+1:]
		body := s.chatterBody("plain-"+kind, 0x0badc0de0badc0de)
		if body == nil {
			s.reject("unknown injection " + f.Kind)
			return
		}
		s.mu.Lock()
		s.nextID += 4
		id := s.nextID + 3
		s.mu.Unlock()
		if strings.HasPrefix(f.Kind, "enc:") {
			plain := cat(salt, []byte{1, 2, 3, 4, 5, 6, 7, 8}, U64(uint64(id)), U32(1), U32(uint32(len(body))), body)
			msgKey := sha(plain)[4:20]
			for len(plain)%16 != 0 {
				plain = append(plain, 0x6d)
			}
			k, iv := kdf(authKey, msgKey, 8)
			s.logf("send-plain", body, id, "sealed with the key of the unfinished exchange")
			s.sendFrame(c, cat(kh[12:20], msgKey, igeEnc(k, iv, plain)))
		} else {
			s.sendPlain(c, body)
		}
		wrong := append([]byte(nil), nh1...)
		wrong[0] ^= 0x40
		s.sendPlain(c, cat(U32(CrcDHGenOk), st.ClientNonce, s.serverNonce, wrong))
		return
	}
	if f := s.fault("genok.ctor"); f != nil {
		s.sendPlain(c, s.altBody(f.Kind[5:], st.ClientNonce, s.serverNonce, st.NewNonce, aux))
		return
	}
	s.sendPlain(c, cat(U32(CrcDHGenOk),
		s.field("genok.nonce", st.ClientNonce, s.serverNonce),
		s.field("genok.server_nonce", s.serverNonce, st.ClientNonce),
		s.field("genok.hash", nh1, nil)))
}

// ---------------------------------------------------------------------------------------------
// encrypted phase: open the packet as MTProto 1.0 prescribes (x = 0: client -> server)

func kdf(authKey, msgKey []byte, x int) (key, iv []byte) {
	a := sha(cat(msgKey, authKey[x:x+32]))
	b := sha(cat(authKey[32+x:48+x], msgKey, authKey[48+x:64+x]))
	c := sha(cat(authKey[64+x:96+x], msgKey))
	d := sha(cat(msgKey, authKey[96+x:128+x]))
	return cat(a[0:8], b[8:20], c[4:16]), cat(a[8:20], b[0:8], c[16:20], d[0:8])
}

func (s *Server) handleEncrypted(c net.Conn, pkt []byte) {
	s.logf("recv-enc", pkt, 0, "")
	s.mu.Lock()
	defer func() {
		ok, first := s.res.EncOpened, s.res.EncSeen == 1
		s.cond.Broadcast()
		s.mu.Unlock()
		if ok && first {
			s.answerPing(c)
		}
	}()
	s.res.EncSeen++
	if s.res.EncSeen > 1 {
		return
	}
	if s.res.AuthKey == nil {
		s.res.EncErr = "encrypted packet before the key exchange finished"
		return
	}
	if !bytes.Equal(pkt[:8], s.res.KeyID) {
		s.res.EncErr = fmt.Sprintf("auth_key_id %x is not the id %x of the negotiated key", pkt[:8], s.res.KeyID)
		return
	}
	if len(pkt) < 24+32 || (len(pkt)-24)%16 != 0 {
		s.res.EncErr = "bad encrypted length"
		return
	}
	msgKey := pkt[8:24]
	key, iv := kdf(s.res.AuthKey, msgKey, 0)
	plain := igeDec(key, iv, pkt[24:])
	n := int(binary.LittleEndian.Uint32(plain[28:32]))
	if n < 0 || 32+n > len(plain) || len(plain)-32-n > 15 {
		s.res.EncErr = "message_data_length out of range"
		return
	}
	if !bytes.Equal(sha(plain[:32+n])[4:20], msgKey) {
		s.res.EncErr = "msg_key mismatch"
		return
	}
	s.res.EncSalt = append([]byte(nil), plain[0:8]...)
	s.res.EncSID = append([]byte(nil), plain[8:16]...)
	s.res.EncMsgID = int64(binary.LittleEndian.Uint64(plain[16:24]))
	s.res.EncSeq = binary.LittleEndian.Uint32(plain[24:28])
	s.res.EncBody = append([]byte(nil), plain[32:32+n]...)
	if !bytes.Equal(s.res.EncSalt, s.res.Salt) {
		s.res.EncErr = fmt.Sprintf("salt %x is not the initial server salt %x", s.res.EncSalt, s.res.Salt)
		return
	}
	s.res.EncOpened = true
}

// answerPing: the first encrypted request of the harness is ping#7abe77ec ping_id:long; the answer is
// rpc_result#f35c6d01 req_msg_id:long result:pong#347773c5 msg_id:long ping_id:long, sealed server -> client (x = 8).
func (s *Server) answerPing(c net.Conn) {
	s.mu.Lock()
	body, reqID, sid, salt, key, kid := s.res.EncBody, s.res.EncMsgID, s.res.EncSID, s.res.Salt, s.res.AuthKey, s.res.KeyID
	s.nextID += 4
	id := s.nextID + 1
	s.mu.Unlock()
	if len(body) != 12 || binary.LittleEndian.Uint32(body) != 0x7abe77ec {
		return
	}
	res := cat(U32(0xf35c6d01), U64(uint64(reqID)), U32(CrcPong), U64(uint64(reqID)), body[4:12])
	plain := cat(salt, sid, U64(uint64(id)), U32(1), U32(uint32(len(res))), res)
	msgKey := sha(plain)[4:20]
	for len(plain)%16 != 0 {
		plain = append(plain, 0x5c)
	}
	k, iv := kdf(key, msgKey, 8)
	s.logf("send-enc", res, id, "")
	s.sendFrame(c, cat(kid, msgKey, igeEnc(k, iv, plain)))
}

// ---------------------------------------------------------------------------------------------
// chatter after the exchange: ONE more server message on the still open connection

// ChatterKinds are the messages SendChatter knows.  The "plain-*" ones travel in an unencrypted envelope; "garbage40" is
// 40 bytes with a non-zero key id; "enc-new_session_created" is the legitimate, encrypted notification (only after
// a finished exchange).
var ChatterKinds = []string{"plain-new_session_created", "plain-bad_server_salt", "plain-rpc_result", "plain-container", "garbage40"}

func (s *Server) chatterBody(kind string, salt uint64) []byte {
	nsc := cat(U32(0x9ec20908), U64(0x5e0b700a00000000), U64(0x1122334455667788), U64(salt))
	switch kind {
	case "plain-new_session_created", "enc-new_session_created":
		return nsc
	case "enc-pong":
		return cat(U32(CrcPong), U64(0x5e0b700a00000004), U64(77))
	case "plain-bad_server_salt":
		return cat(U32(0xedab447b), U64(0x5e0b700a00000004), U32(2), U32(48), U64(salt))
	case "plain-rpc_result":
		return cat(U32(0xf35c6d01), U64(0x5e0b700a00000008), U32(CrcPong), U64(0x5e0b700a00000008), U64(7))
	case "plain-container":
		return cat(U32(0x73f1f8dc), U32(1), U64(0x5e0b700a00000011), U32(1), U32(uint32(len(nsc))), nsc)
	}
	return nil
}

// SendChatter sends one message of the given kind; salt is the server_salt / new_server_salt it announces.
func (s *Server) SendChatter(kind string, salt uint64) error {
	s.mu.Lock()
	c := s.conn
	s.nextID += 4
	id := s.nextID + 3 // a notification, not an answer
	key, kid, sid, cur := s.res.AuthKey, s.res.KeyID, s.res.EncSID, s.res.Salt
	s.mu.Unlock()
	if c == nil {
		return errors.New("hsserver: no connection")
	}
	switch {
	case kind == "garbage40":
		pkt := make([]byte, 40)
		for i := range pkt {
			pkt[i] = byte(0xa5 ^ i)
		}
		s.logf("send-post", pkt, 0, kind)
		s.sendFrame(c, pkt)
	case kind == "enc-new_session_created" || kind == "enc-pong":
		if kind == "enc-pong" && key != nil && sid == nil {
			sid = U64(0x5e551d0000000001) // before the client's first encrypted message its session id is not known (nor checked by it)
		}
		if key == nil || sid == nil {
			return errors.New("hsserver: no key / session for an encrypted notification")
		}
		if cur == nil {
			cur = U64(0)
		}
		body := s.chatterBody(kind, salt)
		seq := uint32(1)
		if kind == "enc-pong" {
			seq = 0 // not content-related: nothing to acknowledge, nothing changes
		}
		plain := cat(cur, sid, U64(uint64(id)), U32(seq), U32(uint32(len(body))), body)
		msgKey := sha(plain)[4:20]
		for len(plain)%16 != 0 {
			plain = append(plain, 0x3c)
		}
		k, iv := kdf(key, msgKey, 8)
		s.logf("send-post", body, id, kind)
		s.sendFrame(c, cat(kid, msgKey, igeEnc(k, iv, plain)))
	default:
		body := s.chatterBody(kind, salt)
		if body == nil {
			return errors.New("hsserver: unknown chatter kind " + kind)
		}
		pkt := make([]byte, 20, 20+len(body))
		binary.LittleEndian.PutUint64(pkt[8:], uint64(id))
		binary.LittleEndian.PutUint32(pkt[16:], uint32(len(body)))
		s.logf("send-post", body, id, kind)
		s.sendFrame(c, append(pkt, body...))
	}
	return nil
}
