module verifcommon

go 1.13
