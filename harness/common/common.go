// Package verifcommon: deterministic PRNG, hex helpers and the line-oriented case-file
// writer shared by the verification harness programs.
package verifcommon

import (
	"bufio"
	"encoding/hex"
	"fmt"
	"go/ast"
	"go/parser"
	"go/token"
	"os"
	"path/filepath"
	"sort"
	"strconv"
	"strings"
	"syscall"
)

// Rng is splitmix64; every random choice of a harness derives from one state.
type Rng struct{ s uint64 }

func NewRng(seed uint64) *Rng { return &Rng{s: seed} }

func (r *Rng) U64() uint64 {
	r.s += 0x9e3779b97f4a7c15
	z := r.s
	z = (z ^ (z >> 30)) * 0xbf58476d1ce4e5b9
	z = (z ^ (z >> 27)) * 0x94d049bb133111eb
	return z ^ (z >> 31)
}

// Intn returns a value in [0,n).
func (r *Rng) Intn(n int) int {
	if n <= 0 {
		return 0
	}
	return int(r.U64() % uint64(n))
}

func (r *Rng) Bool() bool { return r.U64()&1 == 1 }

func (r *Rng) Bytes(n int) []byte {
	b := make([]byte, n)
	for i := range b {
		b[i] = byte(r.U64())
	}
	return b
}

// Pick returns one of the strings.
func (r *Rng) Pick(l []string) string { return l[r.Intn(len(l))] }

// Fork derives an independent stream (so adding draws in one place does not shift others).
func (r *Rng) Fork(tag uint64) *Rng { return NewRng(r.U64() ^ (tag * 0x9e3779b97f4a7c15)) }

// Hex encodes bytes; the empty string is written as "-" so that fields never vanish.
func Hex(b []byte) string {
	if len(b) == 0 {
		return "-"
	}
	return hex.EncodeToString(b)
}

func HexS(s string) string { return Hex([]byte(s)) }

func UnHex(s string) []byte {
	if s == "-" || s == "" {
		return nil
	}
	b, err := hex.DecodeString(s)
	if err != nil {
		panic("bad hex in case file: " + s)
	}
	return b
}

// Seed reads VERIF_SEED (default 1).
func Seed() uint64 {
	v := os.Getenv("VERIF_SEED")
	if v == "" {
		return 1
	}
	n, err := strconv.ParseUint(strings.TrimSpace(v), 10, 64)
	if err != nil {
		i, err2 := strconv.ParseInt(strings.TrimSpace(v), 10, 64)
		if err2 != nil {
			return 1
		}
		return uint64(i)
	}
	return n
}

// Out is a buffered writer for case files; fields are tab separated.
type Out struct {
	w *bufio.Writer
	f *os.File
}

func Create(path string) *Out {
	f, err := os.Create(path)
	if err != nil {
		fmt.Fprintln(os.Stderr, "cannot create", path, err)
		os.Exit(3)
	}
	return &Out{w: bufio.NewWriterSize(f, 1<<20), f: f}
}

func (o *Out) Line(fields ...string) {
	o.w.WriteString(strings.Join(fields, "\t"))
	o.w.WriteByte('\n')
}

func (o *Out) Close() {
	o.w.Flush()
	o.f.Close()
}

// Catch runs f and reports whether it panicked (and with what).
func Catch(f func()) (panicked bool, val interface{}) {
	defer func() {
		if r := recover(); r != nil {
			panicked = true
			val = r
		}
	}()
	f()
	return false, nil
}

// SourceLiterals returns the integer constants that occur in the non-test, non-generated Go sources of the given
// directories (relative to the tree under test: $VERIF_REPO, default /repo; not recursive), sorted, without
// duplicates, restricted to lo..hi: integer literals and constant expressions built from them with << * + -
// (64*1024, 1<<16, 4096-1). A generator uses them as lengths and repetition counts of its own: a buffer size, a
// chunk size or a retry budget of the implementation is a boundary of the implementation although no format knows it.
func SourceLiterals(lo, hi int64, dirs ...string) []int {
	root := os.Getenv("VERIF_REPO")
	if root == "" {
		root = "/repo"
	}
	seen := map[int64]bool{}
	var eval func(e ast.Expr) (int64, bool)
	eval = func(e ast.Expr) (int64, bool) {
		switch x := e.(type) {
		case *ast.BasicLit:
			if x.Kind != token.INT {
				return 0, false
			}
			v, err := strconv.ParseInt(strings.ReplaceAll(x.Value, "_", ""), 0, 64)
			return v, err == nil
		case *ast.ParenExpr:
			return eval(x.X)
		case *ast.BinaryExpr:
			a, ok1 := eval(x.X)
			b, ok2 := eval(x.Y)
			if !ok1 || !ok2 {
				return 0, false
			}
			switch x.Op {
			case token.SHL:
				if b < 0 || b > 40 {
					return 0, false
				}
				return a << uint(b), true
			case token.MUL:
				return a * b, true
			case token.ADD:
				return a + b, true
			case token.SUB:
				return a - b, true
			}
		}
		return 0, false
	}
	for _, d := range dirs {
		ents, err := os.ReadDir(filepath.Join(root, d))
		if err != nil {
			continue
		}
		for _, en := range ents {
			n := en.Name()
			if en.IsDir() || !strings.HasSuffix(n, ".go") || strings.HasSuffix(n, "_test.go") || strings.HasSuffix(n, "_gen.go") ||
				strings.HasPrefix(n, "verif_") {
				continue
			}
			f, err := parser.ParseFile(token.NewFileSet(), filepath.Join(root, d, n), nil, 0)
			if err != nil {
				continue
			}
			ast.Inspect(f, func(nd ast.Node) bool {
				if e, ok := nd.(ast.Expr); ok {
					if v, ok := eval(e); ok && v >= lo && v <= hi {
						seen[v] = true
					}
				}
				return true
			})
		}
	}
	var out []int
	for v := range seen {
		out = append(out, int(v))
	}
	sort.Ints(out)
	return out
}

// ForeignTmp points TMPDIR (os.TempDir) at a fresh directory on a file system OTHER than the one that holds dir,
// so that whatever the library creates "in the temp directory" and then renames or links next to a file under dir
// crosses a device boundary - as it does on every machine where /tmp is a tmpfs and the application's data is not.
// It returns the directory ("" if this machine has no second writable file system) and a function that restores
// TMPDIR and removes the directory.  Call it AFTER the harness has fixed its own scratch directories.  The directory is
// named after the process id, so that a supervisor can remove what a killed child left (RemoveForeignTmp).
var foreignCandidates = []string{"/dev/shm", "/run/shm", "/run/lock", "/var/tmp", "/tmp", "/run"}

func ForeignTmp(dir string) (string, func()) {
	var st syscall.Stat_t
	if syscall.Stat(dir, &st) != nil {
		return "", func() {}
	}
	old, had := os.LookupEnv("TMPDIR")
	for _, c := range foreignCandidates {
		var sc syscall.Stat_t
		if syscall.Stat(c, &sc) != nil || sc.Dev == st.Dev {
			continue
		}
		d := filepath.Join(c, fmt.Sprintf("mtproto-verif-tmp-%d", os.Getpid()))
		if err := os.MkdirAll(d, 0o700); err != nil {
			continue
		}
		os.Setenv("TMPDIR", d)
		return d, func() {
			if had {
				os.Setenv("TMPDIR", old)
			} else {
				os.Unsetenv("TMPDIR")
			}
			os.RemoveAll(d)
		}
	}
	return "", func() {}
}

// RemoveForeignTmp removes what ForeignTmp created in the process pid (which may have been killed).
func RemoveForeignTmp(pid int) {
	for _, c := range foreignCandidates {
		os.RemoveAll(filepath.Join(c, fmt.Sprintf("mtproto-verif-tmp-%d", pid)))
	}
}
