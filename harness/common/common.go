// Package verifcommon: deterministic PRNG, hex helpers and the line-oriented case-file
// writer shared by the verification harness programs.
package verifcommon

import (
	"bufio"
	"encoding/hex"
	"fmt"
	"os"
	"strconv"
	"strings"
)

// Rng is splitmix64; every random choice of a harness derives from one state.
type Rng struct{ s uint64 }

func NewRng(seed uint64) *Rng { return &Rng{s: seed} }

func (r *Rng) U64() uint64 {
	r.s += 0x9e3779b97f4a7c15
	z := r.s
	z = (z ^ (z >> 30)) * 0xbf58476d1ce4e5b9
	z = (z ^ (z >> 27)) * 0x94d049bb133111eb
	return z ^ (z >> 31)
}

// Intn returns a value in [0,n).
func (r *Rng) Intn(n int) int {
	if n <= 0 {
		return 0
	}
	return int(r.U64() % uint64(n))
}

func (r *Rng) Bool() bool { return r.U64()&1 == 1 }

func (r *Rng) Bytes(n int) []byte {
	b := make([]byte, n)
	for i := range b {
		b[i] = byte(r.U64())
	}
	return b
}

// Pick returns one of the strings.
func (r *Rng) Pick(l []string) string { return l[r.Intn(len(l))] }

// Fork derives an independent stream (so adding draws in one place does not shift others).
func (r *Rng) Fork(tag uint64) *Rng { return NewRng(r.U64() ^ (tag * 0x9e3779b97f4a7c15)) }

// Hex encodes bytes; the empty string is written as "-" so that fields never vanish.
func Hex(b []byte) string {
	if len(b) == 0 {
		return "-"
	}
	return hex.EncodeToString(b)
}

func HexS(s string) string { return Hex([]byte(s)) }

func UnHex(s string) []byte {
	if s == "-" || s == "" {
		return nil
	}
	b, err := hex.DecodeString(s)
	if err != nil {
		panic("bad hex in case file: " + s)
	}
	return b
}

// Seed reads VERIF_SEED (default 1).
func Seed() uint64 {
	v := os.Getenv("VERIF_SEED")
	if v == "" {
		return 1
	}
	n, err := strconv.ParseUint(strings.TrimSpace(v), 10, 64)
	if err != nil {
		i, err2 := strconv.ParseInt(strings.TrimSpace(v), 10, 64)
		if err2 != nil {
			return 1
		}
		return uint64(i)
	}
	return n
}

// Out is a buffered writer for case files; fields are tab separated.
type Out struct {
	w *bufio.Writer
	f *os.File
}

func Create(path string) *Out {
	f, err := os.Create(path)
	if err != nil {
		fmt.Fprintln(os.Stderr, "cannot create", path, err)
		os.Exit(3)
	}
	return &Out{w: bufio.NewWriterSize(f, 1<<20), f: f}
}

func (o *Out) Line(fields ...string) {
	o.w.WriteString(strings.Join(fields, "\t"))
	o.w.WriteByte('\n')
}

func (o *Out) Close() {
	o.w.Flush()
	o.f.Close()
}

// Catch runs f and reports whether it panicked (and with what).
func Catch(f func()) (panicked bool, val interface{}) {
	defer func() {
		if r := recover(); r != nil {
			panicked = true
			val = r
		}
	}()
	f()
	return false, nil
}
