// Edge rules of the C19 flow-graph translator (see the header of main.go for the overview).
//
// Every SSA value x has a node x.v ("the value itself": a number, or which object a reference names).
// A value whose type can hold a reference (pointer, slice, map, chan, interface, func, or a
// struct/array/tuple containing one; strings and error values are immutable and excluded) has two more:
//
//	x.m  content: everything that can be READ from memory reachable through x
//	x.d  everything WRITTEN into memory reachable through x - by way of x itself, of references
//	     derived from x (&x.F, &x[i], x[a:b], conversions, loads out of x's memory), or of callees that
//	     received x
//
// A struct field T.F (T declared anywhere) has nodes T.F.m / T.F.d shared by all instances of T; they
// give content to objects whose allocation the slice cannot see (M2).
// An edge "n <- k" reads "n depends on k".  "ref operand" = operand with a reference-holding type.
// Every consumer of a reference-typed value (store, call argument, sink) takes both x.v and x.m.
//
//	V1 instruction y:  y.v <- o.v for every operand o;  if y reads a scalar out of memory (load *a, <-ch,
//	   m[k], a[i], s.F, next, select; result type holds no reference) also y.v <- o.m for its ref operands
//	V2 parameter p.f <- a.f (f = v, m) for the corresponding argument a of every call site in expanded
//	   code that may call the function (static callee, or CHA restricted to receiver types that some
//	   MakeInterface in the program produces, resp. to functions used as values);
//	   p.v <- neutral leaf "called from <pkg>" for call sites in leaf packages;
//	   free variable fv.f <- b.f for the binding b of every MakeClosure of its function
//	V3 call c of expanded callee(s), result r (per result index; Extract k takes result k): c.f <- r.f
//	V4 call c of a leaf (the "hub"): c.v <- leaf node, a.v and a.m of every argument/receiver a
//	   (builtin len/cap: a.v only);  c.m <- c.v;  Extract k of a leaf call <- c.v
//	M1 x.m <- x.d;  x.m <- o.m for every ref operand o (a derived or loaded reference reads what its
//	   source can reach; &s.F and s.F read the content of the whole object s: field-insensitive)
//	M2 x originless (result of a leaf call, global, parameter of an entry point - exported, no call site
//	   in expanded code - or of a function called from a leaf package) of type T or *T, T a struct
//	   declared in the expanded packages: x.m <- T.F.m for every field F of T accessed in expanded code;
//	   T.F.m <- T.F.d;  T.F.d <- y.d for every y = &_.F in expanded code
//	M3 MakeClosure c: c.m <- b.v, b.m for every binding b;  leaf global g: g.m <- g.v
//	D1 uses of x:  Store *x = y: x.d <- y.v, y.m     MapUpdate x[k] = y / Send x <- y: likewise
//	   y is a ref-typed instruction with operand x (derived or loaded reference, &x.F included): x.d <- y.d
//	   x is argument i of a call: expanded callee: x.d <- p_i.d; leaf that may write argument i
//	      (leafContract; default: yes): x.d <- hub c.v; leaf whose ref-typed result may alias
//	      argument i (same table: "none" no argument, "recv" the receiver only): x.d <- c.d
//	   x bound by MakeClosure: x.d <- fv.d
//	   x returned and x is not itself an allocation (new/make: a distinct object per call):
//	      x.d <- c.d of every call site (per result index)
//	G  a global of an expanded package is an address like any other; its uses are found by a scan of
//	   all expanded functions (SSA keeps no referrer lists for globals).
//
// Not modelled (stated in the evidence): (L1) a reference stored into a slice/array/map element or
// passed through a channel, re-loaded elsewhere and written through THERE is seen by later readers of
// that memory (M1) but not by code that kept the original reference in a register (D2 covers
// globals, struct fields and local cells only); (L2) writes through package reflect / unsafe into struct fields
// are attributed to the hub of the reflect call, not to T.F (in this code base only the TL decoder
// does that, with bytes read from the network); (L3) control dependence (which branch ran) is no edge.
package main

import (
	"fmt"
	"go/token"
	"go/types"

	"golang.org/x/tools/go/ssa"
)

var facetName = map[byte]string{'v': "value", 'm': "content", 'd': "written-into"}

// N: node of facet f of SSA value x; nil for constants, builtins, function constants, and for the
// memory facets of values that cannot hold a reference.
func (t *tr) N(x ssa.Value, f byte) *node {
	switch x.(type) {
	case nil, *ssa.Const, *ssa.Builtin, *ssa.Function:
		return nil
	}
	if g, ok := x.(*ssa.Global); ok {
		p := ""
		if g.Pkg != nil {
			p = g.Pkg.Pkg.Path()
		}
		return t.get("g|"+g.String()+"|"+string(f), func(n *node) {
			n.val, n.facet = x, f
			n.label = "[" + facetName[f] + "] global " + g.String() + " @" + t.pos(g.Pos(), nil)
			if !expandedPkg(p) {
				n.leaf = true
				if f == 'v' {
					n.kind = classify(p, g.Name(), nil)
				}
			}
		})
	}
	if f != 'v' && !isRef(x.Type()) {
		return nil
	}
	fn := x.Parent()
	return t.get("v|"+fn.String()+"|"+x.Name()+"|"+string(f), func(n *node) {
		n.val, n.facet = x, f
		d := x.Name() + " = " + x.String()
		switch x.(type) {
		case *ssa.Parameter:
			d = "parameter " + x.Name()
		case *ssa.FreeVar:
			d = "captured " + x.Name()
		}
		n.label = "[" + facetName[f] + "] " + short(d) + " in " + fn.String() + " @" + t.pos(x.Pos(), fn)
	})
}

// hub: the v node of a call instruction (for go/defer, which are not values, a node of its own)
func (t *tr) hub(c ssa.CallInstruction) *node {
	if v, ok := c.(*ssa.Call); ok {
		return t.N(v, 'v')
	}
	fn := c.Parent()
	idx := 0
	for i, in := range c.Block().Instrs {
		if in == c {
			idx = i
		}
	}
	return t.get(fmt.Sprintf("c|%s|%d.%d", fn.String(), c.Block().Index, idx), func(n *node) {
		n.call, n.facet = c, 'v'
		n.label = "[value] " + short(c.String()) + " in " + fn.String() + " @" + t.pos(c.Pos(), fn)
	})
}

func (t *tr) F(k fieldKey, f byte) *node {
	return t.get(fmt.Sprintf("f|%s|%d|%c", k.typ, k.idx, f), func(n *node) {
		kk := k
		n.field, n.facet = &kk, f
		n.label = "[" + facetName[f] + "] field " + k.typ + "." + t.fieldName[k]
	})
}

func (t *tr) leafNode(name string, kind int) *node {
	return t.get("l|"+name, func(n *node) { n.label = "leaf " + name; n.kind = kind; n.leaf = true })
}

func (t *tr) globalSource() *node {
	return t.get("l|math/rand <global source>", func(n *node) {
		n.label = "leaf math/rand <global source>"
		n.kind = KPrng
		n.leaf = true
	})
}

func (t *tr) calleesOf(c ssa.CallInstruction) []*ssa.Function {
	cc := c.Common()
	if !cc.IsInvoke() {
		if f := cc.StaticCallee(); f != nil {
			return []*ssa.Function{f}
		}
	}
	return t.callees[c]
}

func freshAlloc(x ssa.Value) bool {
	switch x.(type) {
	case *ssa.Alloc, *ssa.MakeSlice, *ssa.MakeMap, *ssa.MakeChan:
		return true
	}
	return false
}

func isLoad(x ssa.Value) bool {
	switch y := x.(type) {
	case *ssa.UnOp:
		return y.Op == token.MUL || y.Op == token.ARROW
	case *ssa.Lookup, *ssa.Index, *ssa.Field, *ssa.Next, *ssa.Select:
		return true
	}
	return false
}

func returnsOf(f *ssa.Function) []*ssa.Return {
	var rs []*ssa.Return
	for _, b := range f.Blocks {
		if r, ok := b.Instrs[len(b.Instrs)-1].(*ssa.Return); ok {
			rs = append(rs, r)
		}
	}
	return rs
}

// callSitesOf: call instructions in expanded code that may call fn; the second result tells whether
// some call site lies in a leaf package.
func (t *tr) callSitesOf(fn *ssa.Function) (sites []ssa.CallInstruction, ext []string) {
	if cn := t.cg.Nodes[fn]; cn != nil {
		for _, e := range cn.In {
			if e.Site == nil || !t.live(e.Site, fn) {
				continue
			}
			if expanded(e.Caller.Func) {
				sites = append(sites, e.Site)
			} else {
				ext = append(ext, fnPkg(e.Caller.Func))
			}
		}
	}
	return
}

// resultNodes: the nodes (facet f) standing for result #idx of call site c: the call itself for a
// single-result callee, its Extract #idx instructions otherwise.
func (t *tr) resultNodes(c ssa.CallInstruction, idx, nres int, f byte) []*node {
	call, ok := c.(*ssa.Call)
	if !ok {
		return nil
	}
	if nres == 1 {
		return []*node{t.N(call, f)}
	}
	var out []*node
	for _, u := range *call.Referrers() {
		if ex, isEx := u.(*ssa.Extract); isEx && ex.Index == idx {
			out = append(out, t.N(ex, f))
		}
	}
	return out
}

// V3/V4 for facet f (v or m) of result idx (-1: the call node itself) of call c
func (t *tr) callResult(n *node, c ssa.CallInstruction, idx int, f byte) {
	cc := c.Common()
	fns := t.calleesOf(c)
	multi := cc.Signature().Results().Len() > 1
	for _, fn := range fns {
		if !expanded(fn) || (idx < 0 && multi) {
			continue
		}
		for _, r := range returnsOf(fn) {
			for i, x := range r.Results {
				if idx < 0 || i == idx {
					t.add(n, t.N(x, f))
				}
			}
		}
	}
	li, leaf := t.leafOf(cc, fns)
	if !leaf {
		return
	}
	switch {
	case f == 'm' || idx >= 0:
		t.add(n, t.hub(c))
	default: // the hub itself
		if li.seed {
			n.kind = KSeed
			n.label = "SEED " + n.label
		} else if !li.builtin {
			l := t.leafNode(li.name, li.kind)
			if li.glob {
				t.add(l, t.globalSource())
			}
			t.add(n, l)
		}
		for _, a := range callArgs(cc) {
			t.add(n, t.N(a, 'v'))
			if li.name != "builtin len" && li.name != "builtin cap" { // the length is part of the slice value itself
				t.add(n, t.N(a, 'm'))
			}
		}
		if !cc.IsInvoke() && cc.StaticCallee() == nil {
			t.add(n, t.N(cc.Value, 'v'))
			t.add(n, t.N(cc.Value, 'm'))
		}
	}
}

// originless: values whose content cannot be traced to an allocation in expanded code through
// M1/V2/V3 - results of leaf calls, globals, parameters of functions that are called from leaf packages
// or are entry points (exported, no call site in expanded code; an unexported function without call
// sites, e.g. the promotion wrapper of an unexported method, is dead code)
func (t *tr) originless(x ssa.Value) bool {
	switch y := x.(type) {
	case *ssa.Global:
		return true
	case *ssa.Parameter:
		sites, ext := t.callSitesOf(y.Parent())
		return len(sites) == 0 && token.IsExported(y.Parent().Name()) || len(ext) > 0
	case *ssa.Call:
		_, leaf := t.leafOf(y.Common(), t.calleesOf(y))
		return leaf
	case *ssa.Extract:
		if c, ok := y.Tuple.(*ssa.Call); ok {
			_, leaf := t.leafOf(c.Common(), t.calleesOf(c))
			return leaf
		}
	}
	return false
}

// M2
func (t *tr) content(n *node, ty types.Type) {
	k, st, ok := structKey(ty)
	if !ok {
		return
	}
	if nt, isNamed := derefT(ty).(*types.Named); !isNamed || nt.Obj().Pkg() == nil || !expandedPkg(nt.Obj().Pkg().Path()) {
		return
	}
	for i := 0; i < st.NumFields(); i++ {
		k.idx = i
		if len(t.fieldUses[k]) > 0 {
			t.add(n, t.F(k, 'm'))
		}
	}
}

func (t *tr) usesOf(x ssa.Value) []ssa.Instruction {
	if g, ok := x.(*ssa.Global); ok {
		return t.globUses[g]
	}
	if r := x.Referrers(); r != nil {
		return *r
	}
	return nil
}

func refOperands(x ssa.Value) []ssa.Value {
	in, ok := x.(ssa.Instruction)
	if !ok {
		return nil
	}
	var out []ssa.Value
	for _, op := range in.Operands(nil) {
		if *op != nil && isRef((*op).Type()) {
			out = append(out, *op)
		}
	}
	return out
}

// V2 for facet f
func (t *tr) fromCallers(n *node, x ssa.Value, f byte) {
	switch p := x.(type) {
	case *ssa.Parameter:
		fn := p.Parent()
		idx := -1
		for i, q := range fn.Params {
			if q == p {
				idx = i
			}
		}
		sites, ext := t.callSitesOf(fn)
		for _, s := range sites {
			if as := callArgs(s.Common()); idx >= 0 && idx < len(as) {
				t.add(n, t.N(as[idx], f))
			}
		}
		if f == 'v' {
			for _, e := range ext {
				t.add(n, t.leafNode("called from package "+e, KNeutral))
			}
		}
	case *ssa.FreeVar:
		for _, mc := range t.closures[p.Parent()] {
			for i, fv := range p.Parent().FreeVars {
				if fv == p && i < len(mc.Bindings) {
					t.add(n, t.N(mc.Bindings[i], f))
				}
			}
		}
	}
}

func (t *tr) expand(n *node) {
	if n.field != nil {
		k := *n.field
		switch n.facet {
		case 'm':
			t.add(n, t.F(k, 'd'))
		case 'd':
			for _, u := range t.fieldUses[k] {
				if _, isAddr := u.(*ssa.FieldAddr); isAddr {
					t.add(n, t.N(u, 'd'))
				}
			}
		}
		return
	}
	if n.val == nil {
		if n.call != nil { // go / defer hub
			t.callResult(n, n.call, -1, 'v')
		}
		return
	}
	x := n.val
	if g, ok := x.(*ssa.Global); ok && n.leaf {
		if n.facet == 'm' {
			t.add(n, t.N(g, 'v'))
		}
		return
	}
	switch n.facet {
	case 'v':
		t.expandV(n, x)
	case 'm':
		t.add(n, t.N(x, 'd'))
		if t.originless(x) {
			t.content(n, x.Type())
		}
		t.expandVMW(n, x, 'm')
	case 'd':
		t.expandD(n, x)
	}
}

func (t *tr) expandV(n *node, x ssa.Value) {
	switch y := x.(type) {
	case *ssa.Parameter, *ssa.FreeVar:
		t.fromCallers(n, x, 'v')
	case *ssa.Global:
	case *ssa.Call:
		t.callResult(n, y, -1, 'v')
	case *ssa.Extract:
		if c, ok := y.Tuple.(*ssa.Call); ok {
			t.callResult(n, c, y.Index, 'v')
		} else {
			t.add(n, t.N(y.Tuple, 'v'))
			if !isRef(x.Type()) {
				t.add(n, t.N(y.Tuple, 'm'))
			}
		}
	default:
		for _, op := range x.(ssa.Instruction).Operands(nil) {
			t.add(n, t.N(*op, 'v'))
			if isLoad(x) && !isRef(x.Type()) && *op != nil && isRef((*op).Type()) {
				t.add(n, t.N(*op, 'm'))
			}
		}
	}
}

// the operand/caller side of facet m (M1, V2, V3, V4)
func (t *tr) expandVMW(n *node, x ssa.Value, f byte) {
	switch y := x.(type) {
	case *ssa.Parameter, *ssa.FreeVar:
		t.fromCallers(n, x, f)
	case *ssa.Global:
	case *ssa.Call:
		t.callResult(n, y, -1, f)
	case *ssa.Extract:
		if c, ok := y.Tuple.(*ssa.Call); ok {
			t.callResult(n, c, y.Index, f)
		} else {
			t.add(n, t.N(y.Tuple, f))
		}
	case *ssa.FieldAddr:
		t.add(n, t.N(y.X, f))
	case *ssa.MakeClosure:
		for _, b := range y.Bindings {
			if f == 'm' {
				t.add(n, t.N(b, 'v'))
			}
			t.add(n, t.N(b, f))
		}
	default:
		for _, o := range refOperands(x) {
			t.add(n, t.N(o, f))
		}
	}
}

// D2: x was stored into the named location a (global, struct field T.F of any instance, local
// cell): whatever is written through a reference loaded back from that location lands in x's memory.
func (t *tr) reloaded(n *node, a ssa.Value) {
	loads := func(addr ssa.Value) {
		for _, u := range t.usesOf(addr) {
			if l, ok := u.(*ssa.UnOp); ok && l.Op == token.MUL && l.X == addr {
				t.add(n, t.N(l, 'd'))
			}
		}
	}
	switch y := a.(type) {
	case *ssa.Global, *ssa.Alloc:
		loads(y)
	case *ssa.FieldAddr:
		if k, ok := fieldOf(y); ok {
			for _, u := range t.fieldUses[k] {
				if _, isAddr := u.(*ssa.FieldAddr); isAddr {
					loads(u)
				}
			}
		}
	}
}

// D1, D2
func (t *tr) expandD(n *node, x ssa.Value) {
	stored := func(vals ...ssa.Value) {
		for _, y := range vals {
			t.add(n, t.N(y, 'v'))
			t.add(n, t.N(y, 'm'))
		}
	}
	for _, r := range t.usesOf(x) {
		switch r := r.(type) {
		case *ssa.Store:
			if r.Addr == x {
				stored(r.Val)
			}
			if r.Val == x {
				t.reloaded(n, r.Addr)
			}
		case *ssa.MapUpdate:
			if r.Map == x {
				stored(r.Key, r.Value)
			}
		case *ssa.Send:
			if r.Chan == x {
				stored(r.X)
			}
		case *ssa.MakeClosure:
			f := r.Fn.(*ssa.Function)
			for i, b := range r.Bindings {
				if b == x && i < len(f.FreeVars) {
					t.add(n, t.N(f.FreeVars[i], 'd'))
				}
			}
			t.add(n, t.N(r, 'd'))
		case *ssa.Return:
			if freshAlloc(x) {
				continue // a distinct object per call: only the caller that received it can write into it
			}
			sites, _ := t.callSitesOf(r.Parent())
			for i, y := range r.Results {
				if y == x {
					for _, s := range sites {
						for _, rn := range t.resultNodes(s, i, len(r.Results), 'd') {
							t.add(n, rn)
						}
					}
				}
			}
		case ssa.CallInstruction:
			cc := r.Common()
			fns := t.calleesOf(r)
			li, leaf := t.leafOf(cc, fns)
			for i, a := range callArgs(cc) {
				if a != x {
					continue
				}
				for _, f := range fns {
					if expanded(f) && i < len(f.Params) {
						t.add(n, t.N(f.Params[i], 'd'))
					}
				}
				if leaf && mayWrite(li.name, i) {
					t.add(n, t.hub(r))
				}
				if c, isCall := r.(*ssa.Call); isCall && leaf && mayAlias(li.name, i) {
					t.add(n, t.N(c, 'd'))
				}
			}
		default:
			if y, ok := r.(ssa.Value); ok {
				t.add(n, t.N(y, 'd'))
			}
		}
	}
}
