// Edge rules of the C19 flow-graph translator (see the header of main.go for the overview).
//
// Every SSA value x has a node x.v ("the value itself / which object it refers to").  A value whose
// type can hold a reference (pointer, slice, map, chan, interface other than error, func, or a
// struct/array/tuple containing one; strings and error values are immutable and excluded) has three more:
//
//	x.m  content: everything that can be READ from memory reachable through x
//	x.d  everything WRITTEN into memory reachable through x, by way of x, of references derived from
//	     x, or of callees that received x
//	x.w  everything written through references that were LOADED out of memory reachable from x
//	     (needed for "p stored in a field, later loaded as q, q filled by rand.Read": p.d <- field.w <- q.d)
//
// A struct field T.F has nodes T.F.m / .d / .w shared by all instances of T (field-based heap model).
// An edge n <- k below reads "n depends on k".  "ref operand" = operand with a reference-holding type.
//
//	V1 instruction y:  y.v <- o.v for every operand o;  if y reads memory (load *a, <-ch, m[k], a[i],
//	   s.F, next, select) also y.v <- o.m for its ref operands.     Field s.F:  y.v <- T.F.m
//	V2 parameter p.f <- a.f (f = v, m, w) for the corresponding argument a of every call site (CHA) in
//	   expanded code, p.v <- neutral leaf "called from <pkg>" for call sites in leaf packages;
//	   free variable fv.f <- b.f for the binding b of every MakeClosure of its function
//	V3 call c of expanded callee(s): result r (per result index; Extract k takes result k):
//	   c.f <- r.f (f = v, m, w)
//	V4 call c of a leaf (the "hub"): c.v <- leaf node, a.v and a.m of every argument/receiver a;
//	   c.m <- c.v;  Extract k of a leaf call <- c.v
//	M1 x.m <- x.d;  x.m <- o.m for every ref operand o (derived references and loaded references can
//	   read what their source can reach), except  &s.F: x.m <- T.F.m  and  s.F: x.m <- T.F.m, s.m
//	M2 x of type T or *T, T a struct declared in the expanded packages: x.m <- T.F.m for every field F
//	   of T that expanded code accesses (a struct carries its fields).  T.F.m <- T.F.d
//	M3 MakeClosure c: c.m <- b.v, b.m for every binding b;  leaf global g: g.m <- g.v
//	D1 uses of x:  Store *x = y: x.d <- y.v, y.m     MapUpdate x[k] = y / Send x <- y: likewise
//	   y is a ref-typed instruction with operand x (derived or loaded reference): x.d <- y.d
//	      (except &x.F / x.F, whose writes go to the field: T.F.d <- y.d for every &_.F in expanded code)
//	   x is argument i of a call: expanded callee: x.d <- p_i.d; leaf that may write argument i
//	      (leafContract; default: yes): x.d <- hub c.v; leaf whose ref-typed result may alias its
//	      arguments (contract not "none"): x.d <- c.d
//	   x bound by MakeClosure: x.d <- fv.d      x returned: x.d <- c.d of every call site (per index)
//	D2 Store *a = x (also map value/key, channel send), x ref: x.d <- a.w
//	W1 x.w <- o.w for every ref operand o of x (for &s.F: <- T.F.w instead);  x.w <- y.w for every
//	   ref-typed instruction y using x, and x.w <- y.d when y loads from x;  Store *a = x: x.w <- a.w;
//	   T.F.w <- y.w for every &_.F, and <- z.d, z.w for every ref-typed _.F;  argument/parameter,
//	   binding/free variable, result/call (for leaves: unless contract "none"): both directions.
//	G  a global of an expanded package is an address like any other; its uses are found by a scan of
//	   all expanded functions (SSA keeps no referrer lists for globals).
package main

import (
	"fmt"
	"go/token"
	"go/types"

	"golang.org/x/tools/go/ssa"
)

var facetName = map[byte]string{'v': "value", 'm': "content", 'd': "written-into", 'w': "written-via-loaded-ref"}

// N: node of facet f of SSA value x; nil for constants, builtins, function constants, and for the
// memory facets of values that cannot hold a reference.
func (t *tr) N(x ssa.Value, f byte) *node {
	switch x.(type) {
	case nil, *ssa.Const, *ssa.Builtin, *ssa.Function:
		return nil
	}
	if g, ok := x.(*ssa.Global); ok {
		p := ""
		if g.Pkg != nil {
			p = g.Pkg.Pkg.Path()
		}
		return t.get("g|"+g.String()+"|"+string(f), func(n *node) {
			n.val, n.facet = x, f
			n.label = "[" + facetName[f] + "] global " + g.String() + " @" + t.pos(g.Pos(), nil)
			if !expandedPkg(p) {
				n.leaf = true
				if f == 'v' {
					n.kind = classify(p, g.Name(), nil)
				}
			}
		})
	}
	if f != 'v' && !isRef(x.Type()) || f == 'w' {
		return nil
	}
	fn := x.Parent()
	return t.get("v|"+fn.String()+"|"+x.Name()+"|"+string(f), func(n *node) {
		n.val, n.facet = x, f
		d := x.Name() + " = " + x.String()
		switch x.(type) {
		case *ssa.Parameter:
			d = "parameter " + x.Name()
		case *ssa.FreeVar:
			d = "captured " + x.Name()
		}
		n.label = "[" + facetName[f] + "] " + short(d) + " in " + fn.String() + " @" + t.pos(x.Pos(), fn)
	})
}

// hub: the v node of a call instruction (for go/defer, which are not values, a node of its own)
func (t *tr) hub(c ssa.CallInstruction) *node {
	if v, ok := c.(*ssa.Call); ok {
		return t.N(v, 'v')
	}
	fn := c.Parent()
	idx := 0
	for i, in := range c.Block().Instrs {
		if in == c {
			idx = i
		}
	}
	return t.get(fmt.Sprintf("c|%s|%d.%d", fn.String(), c.Block().Index, idx), func(n *node) {
		n.call, n.facet = c, 'v'
		n.label = "[value] " + short(c.String()) + " in " + fn.String() + " @" + t.pos(c.Pos(), fn)
	})
}

func (t *tr) F(k fieldKey, f byte) *node {
	return t.get(fmt.Sprintf("f|%s|%d|%c", k.typ, k.idx, f), func(n *node) {
		kk := k
		n.field, n.facet = &kk, f
		n.label = "[" + facetName[f] + "] field " + k.typ + "." + t.fieldName[k]
	})
}

func (t *tr) leafNode(name string, kind int) *node {
	return t.get("l|"+name, func(n *node) { n.label = "leaf " + name; n.kind = kind; n.leaf = true })
}

func (t *tr) globalSource() *node {
	return t.get("l|math/rand <global source>", func(n *node) {
		n.label = "leaf math/rand <global source>"
		n.kind = KPrng
		n.leaf = true
	})
}

func (t *tr) calleesOf(c ssa.CallInstruction) []*ssa.Function {
	cc := c.Common()
	if !cc.IsInvoke() {
		if f := cc.StaticCallee(); f != nil {
			return []*ssa.Function{f}
		}
	}
	return t.callees[c]
}

func freshAlloc(x ssa.Value) bool {
	switch x.(type) {
	case *ssa.Alloc, *ssa.MakeSlice, *ssa.MakeMap, *ssa.MakeChan:
		return true
	}
	return false
}

func isLoad(x ssa.Value) bool {
	switch y := x.(type) {
	case *ssa.UnOp:
		return y.Op == token.MUL || y.Op == token.ARROW
	case *ssa.Lookup, *ssa.Index, *ssa.Field, *ssa.Next, *ssa.Select:
		return true
	}
	return false
}

func returnsOf(f *ssa.Function) []*ssa.Return {
	var rs []*ssa.Return
	for _, b := range f.Blocks {
		if r, ok := b.Instrs[len(b.Instrs)-1].(*ssa.Return); ok {
			rs = append(rs, r)
		}
	}
	return rs
}

// callSitesOf: call instructions in expanded code that may call fn; the second result tells whether
// some call site lies in a leaf package.
func (t *tr) callSitesOf(fn *ssa.Function) (sites []ssa.CallInstruction, ext []string) {
	if cn := t.cg.Nodes[fn]; cn != nil {
		for _, e := range cn.In {
			if e.Site == nil || !t.live(e.Site, fn) {
				continue
			}
			if expanded(e.Caller.Func) {
				sites = append(sites, e.Site)
			} else {
				ext = append(ext, fnPkg(e.Caller.Func))
			}
		}
	}
	return
}

// resultNodes: the nodes (facet f) standing for result #idx of call site c: the call itself for a
// single-result callee, its Extract #idx instructions otherwise.
func (t *tr) resultNodes(c ssa.CallInstruction, idx, nres int, f byte) []*node {
	call, ok := c.(*ssa.Call)
	if !ok {
		return nil
	}
	if nres == 1 {
		return []*node{t.N(call, f)}
	}
	var out []*node
	for _, u := range *call.Referrers() {
		if ex, isEx := u.(*ssa.Extract); isEx && ex.Index == idx {
			out = append(out, t.N(ex, f))
		}
	}
	return out
}

// V3/V4 for facet f (v, m or w) of result idx (-1: the call node itself) of call c
func (t *tr) callResult(n *node, c ssa.CallInstruction, idx int, f byte) {
	cc := c.Common()
	fns := t.calleesOf(c)
	multi := cc.Signature().Results().Len() > 1
	for _, fn := range fns {
		if !expanded(fn) || (idx < 0 && multi) {
			continue
		}
		for _, r := range returnsOf(fn) {
			for i, x := range r.Results {
				if idx < 0 || i == idx {
					t.add(n, t.N(x, f))
				}
			}
		}
	}
	li, leaf := t.leafOf(cc, fns)
	if !leaf {
		return
	}
	switch {
	case f == 'w':
		for i, a := range callArgs(cc) {
			if mayAlias(li.name, i) {
				t.add(n, t.N(a, 'w'))
			}
		}
	case f == 'm' || idx >= 0:
		t.add(n, t.hub(c))
	default: // the hub itself
		if li.seed {
			n.kind = KSeed
			n.label = "SEED " + n.label
		} else if !li.builtin {
			l := t.leafNode(li.name, li.kind)
			if li.glob {
				t.add(l, t.globalSource())
			}
			t.add(n, l)
		}
		for _, a := range callArgs(cc) {
			t.add(n, t.N(a, 'v'))
			t.add(n, t.N(a, 'm'))
		}
		if !cc.IsInvoke() && cc.StaticCallee() == nil {
			t.add(n, t.N(cc.Value, 'v'))
			t.add(n, t.N(cc.Value, 'm'))
		}
	}
}

// M2
func (t *tr) content(n *node, ty types.Type) {
	k, st, ok := structKey(ty)
	if !ok {
		return
	}
	if nt, isNamed := derefT(ty).(*types.Named); !isNamed || nt.Obj().Pkg() == nil || !expandedPkg(nt.Obj().Pkg().Path()) {
		return
	}
	for i := 0; i < st.NumFields(); i++ {
		k.idx = i
		if len(t.fieldUses[k]) > 0 {
			t.add(n, t.F(k, 'm'))
		}
	}
}

func (t *tr) usesOf(x ssa.Value) []ssa.Instruction {
	if g, ok := x.(*ssa.Global); ok {
		return t.globUses[g]
	}
	if r := x.Referrers(); r != nil {
		return *r
	}
	return nil
}

func refOperands(x ssa.Value) []ssa.Value {
	in, ok := x.(ssa.Instruction)
	if !ok {
		return nil
	}
	var out []ssa.Value
	for _, op := range in.Operands(nil) {
		if *op != nil && isRef((*op).Type()) {
			out = append(out, *op)
		}
	}
	return out
}

// V2 for facet f
func (t *tr) fromCallers(n *node, x ssa.Value, f byte) {
	switch p := x.(type) {
	case *ssa.Parameter:
		fn := p.Parent()
		idx := -1
		for i, q := range fn.Params {
			if q == p {
				idx = i
			}
		}
		sites, ext := t.callSitesOf(fn)
		for _, s := range sites {
			if as := callArgs(s.Common()); idx >= 0 && idx < len(as) {
				t.add(n, t.N(as[idx], f))
			}
		}
		if f == 'v' {
			for _, e := range ext {
				t.add(n, t.leafNode("called from package "+e, KNeutral))
			}
		}
	case *ssa.FreeVar:
		for _, mc := range t.closures[p.Parent()] {
			for i, fv := range p.Parent().FreeVars {
				if fv == p && i < len(mc.Bindings) {
					t.add(n, t.N(mc.Bindings[i], f))
				}
			}
		}
	}
}

func (t *tr) expand(n *node) {
	if n.field != nil {
		k := *n.field
		switch n.facet {
		case 'm':
			t.add(n, t.F(k, 'd'))
		case 'd':
			for _, u := range t.fieldUses[k] {
				if _, isAddr := u.(*ssa.FieldAddr); isAddr {
					t.add(n, t.N(u, 'd'))
				}
			}
		case 'w':
			for _, u := range t.fieldUses[k] {
				t.add(n, t.N(u, 'w'))
				if _, isAddr := u.(*ssa.FieldAddr); !isAddr {
					t.add(n, t.N(u, 'd'))
				}
			}
		}
		return
	}
	if n.val == nil {
		if n.call != nil { // go / defer hub
			t.callResult(n, n.call, -1, 'v')
		}
		return
	}
	x := n.val
	if g, ok := x.(*ssa.Global); ok && n.leaf {
		if n.facet == 'm' {
			t.add(n, t.N(g, 'v'))
		}
		return
	}
	switch n.facet {
	case 'v':
		t.expandV(n, x)
	case 'm':
		t.add(n, t.N(x, 'd'))
		t.content(n, x.Type())
		t.expandVMW(n, x, 'm')
	case 'd':
		t.expandD(n, x)
	case 'w':
		t.expandVMW(n, x, 'w')
		t.expandWuses(n, x)
	}
}

func (t *tr) expandV(n *node, x ssa.Value) {
	switch y := x.(type) {
	case *ssa.Parameter, *ssa.FreeVar:
		t.fromCallers(n, x, 'v')
	case *ssa.Global:
	case *ssa.Call:
		t.callResult(n, y, -1, 'v')
	case *ssa.Extract:
		if c, ok := y.Tuple.(*ssa.Call); ok {
			t.callResult(n, c, y.Index, 'v')
		} else {
			t.add(n, t.N(y.Tuple, 'v'))
			if !isRef(x.Type()) {
				t.add(n, t.N(y.Tuple, 'm'))
			}
		}
	default:
		for _, op := range x.(ssa.Instruction).Operands(nil) {
			t.add(n, t.N(*op, 'v'))
			if isLoad(x) && !isRef(x.Type()) && *op != nil && isRef((*op).Type()) {
				t.add(n, t.N(*op, 'm'))
			}
		}
		if _, isField := x.(*ssa.Field); isField && !isRef(x.Type()) {
			if k, ok := fieldOf(x); ok {
				t.add(n, t.F(k, 'm'))
			}
		}
	}
}

// the operand/caller side of facets m and w (M1, V2, V3, V4, W1 first half)
func (t *tr) expandVMW(n *node, x ssa.Value, f byte) {
	switch y := x.(type) {
	case *ssa.Parameter, *ssa.FreeVar:
		t.fromCallers(n, x, f)
	case *ssa.Global:
	case *ssa.Call:
		t.callResult(n, y, -1, f)
	case *ssa.Extract:
		if c, ok := y.Tuple.(*ssa.Call); ok {
			t.callResult(n, c, y.Index, f)
		} else {
			t.add(n, t.N(y.Tuple, f))
		}
	case *ssa.FieldAddr:
		if k, ok := fieldOf(x); ok {
			t.add(n, t.F(k, f))
		}
	case *ssa.MakeClosure:
		for _, b := range y.Bindings {
			if f == 'm' {
				t.add(n, t.N(b, 'v'))
			}
			t.add(n, t.N(b, f))
		}
	default:
		if _, isField := x.(*ssa.Field); isField {
			if k, ok := fieldOf(x); ok {
				t.add(n, t.F(k, f))
			}
		}
		for _, o := range refOperands(x) {
			t.add(n, t.N(o, f))
		}
	}
}

// D1, D2
func (t *tr) expandD(n *node, x ssa.Value) {
	stored := func(vals ...ssa.Value) {
		for _, y := range vals {
			t.add(n, t.N(y, 'v'))
			t.add(n, t.N(y, 'm'))
		}
	}
	for _, r := range t.usesOf(x) {
		switch r := r.(type) {
		case *ssa.Store:
			if r.Addr == x {
				stored(r.Val)
			}
			if r.Val == x {
				t.add(n, t.N(r.Addr, 'w'))
			}
		case *ssa.MapUpdate:
			if r.Map == x {
				stored(r.Key, r.Value)
			}
			if r.Key == x || r.Value == x {
				t.add(n, t.N(r.Map, 'w'))
			}
		case *ssa.Send:
			if r.Chan == x {
				stored(r.X)
			}
			if r.X == x {
				t.add(n, t.N(r.Chan, 'w'))
			}
		case *ssa.MakeClosure:
			f := r.Fn.(*ssa.Function)
			for i, b := range r.Bindings {
				if b == x && i < len(f.FreeVars) {
					t.add(n, t.N(f.FreeVars[i], 'd'))
				}
			}
			t.add(n, t.N(r, 'd'))
		case *ssa.Return:
			if freshAlloc(x) {
				continue // a distinct object per call: only the caller that received it can write into it
			}
			sites, _ := t.callSitesOf(r.Parent())
			for i, y := range r.Results {
				if y == x {
					for _, s := range sites {
						for _, rn := range t.resultNodes(s, i, len(r.Results), 'd') {
							t.add(n, rn)
						}
					}
				}
			}
		case *ssa.FieldAddr, *ssa.Field:
		case ssa.CallInstruction:
			cc := r.Common()
			fns := t.calleesOf(r)
			li, leaf := t.leafOf(cc, fns)
			for i, a := range callArgs(cc) {
				if a != x {
					continue
				}
				for _, f := range fns {
					if expanded(f) && i < len(f.Params) {
						t.add(n, t.N(f.Params[i], 'd'))
					}
				}
				if leaf && mayWrite(li.name, i) {
					t.add(n, t.hub(r))
				}
				if c, isCall := r.(*ssa.Call); isCall && leaf && mayAlias(li.name, i) {
					t.add(n, t.N(c, 'd'))
				}
			}
		default:
			if y, ok := r.(ssa.Value); ok {
				t.add(n, t.N(y, 'd'))
			}
		}
	}
}

// W1 second half: the uses of x
func (t *tr) expandWuses(n *node, x ssa.Value) {
	for _, r := range t.usesOf(x) {
		switch r := r.(type) {
		case *ssa.Store:
			if r.Val == x {
				t.add(n, t.N(r.Addr, 'w'))
			}
		case *ssa.MapUpdate:
			if r.Key == x || r.Value == x {
				t.add(n, t.N(r.Map, 'w'))
			}
		case *ssa.Send:
			if r.X == x {
				t.add(n, t.N(r.Chan, 'w'))
			}
		case *ssa.MakeClosure:
			f := r.Fn.(*ssa.Function)
			for i, b := range r.Bindings {
				if b == x && i < len(f.FreeVars) {
					t.add(n, t.N(f.FreeVars[i], 'w'))
				}
			}
			t.add(n, t.N(r, 'w'))
		case *ssa.Return:
			sites, _ := t.callSitesOf(r.Parent())
			for i, y := range r.Results {
				if y == x {
					for _, s := range sites {
						for _, rn := range t.resultNodes(s, i, len(r.Results), 'w') {
							t.add(n, rn)
						}
					}
				}
			}
		case *ssa.FieldAddr, *ssa.Field:
		case ssa.CallInstruction:
			cc := r.Common()
			fns := t.calleesOf(r)
			li, leaf := t.leafOf(cc, fns)
			for i, a := range callArgs(cc) {
				if a != x {
					continue
				}
				for _, f := range fns {
					if expanded(f) && i < len(f.Params) {
						t.add(n, t.N(f.Params[i], 'w'))
					}
				}
				if c, isCall := r.(*ssa.Call); isCall && leaf && mayAlias(li.name, i) {
					t.add(n, t.N(c, 'w'))
				}
			}
		default:
			if y, ok := r.(ssa.Value); ok {
				t.add(n, t.N(y, 'w'))
				if isLoad(y) {
					t.add(n, t.N(y, 'd'))
				}
			}
		}
	}
}
