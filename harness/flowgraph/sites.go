// Definition sites of the secrets (C19, "on every path").
//
// The sinks of main.go are unions: a secret whose value is random on one path and a constant, a
// cached or a caller-supplied value on another would pass "some OS source flows into it".  So every
// ALTERNATIVE origin of the value that reaches an anchor is made a node of its own ("site") and the
// Coq check demands of EACH site what it demands of the secret: an OS source flows into it, no
// math/rand / clock / Seed site does.
//
// The alternatives are found by walking backwards from the anchored value through the instructions
// that only SELECT or COPY a value (S-rules); the walk stops at the first instruction that computes
// or allocates something - that value is a site and depends on its own x.v and x.m:
//
//	S1 phi                    -> every incoming value
//	S2 parameter              -> the argument of every call site in expanded code (same call graph as V2);
//	                             if the walk entered the function through the result of a call (S3), of
//	                             that call only (call strings of depth <= 8)
//	   free variable          -> the binding of every MakeClosure
//	S3 call of expanded callee(s), Extract of one -> the returned value (per result index) of every callee
//	S4 ChangeType, ChangeInterface, MakeInterface, TypeAssert, Slice, SliceToArrayPointer -> the operand
//	S5 load *a of a local cell a (Alloc used only by loads and stores) -> every value stored into a
//
// Degenerate sites carry no entropy by construction and depend on a NEUTRAL marker leaf only, so they
// fail the check (no OS source):
//
//	constant                        a constant (nil, zero, literal) is one of the alternatives
//	zero value                      a local cell that is read but never written
//	caller-supplied                 parameter of an entry point (exported, no call site in expanded code)
//	                                or of a function called from a leaf package
//	re-read from long-lived memory  load of a struct field or of a global of the expanded packages: the
//	                                value was drawn earlier and is used AGAIN (cached / previous nonce)
//
// Start values: the value stored by every Store into an anchor field (Nonce, NewNonce, SrpAnswer.GA),
// the exponent argument of every big.Int.Exp and result 0 of every Return in MakeGAB.
// Limits: alternatives inside memory contents (a buffer filled on one path only) and below the first
// computing instruction (A = g^a: the site is the Exp call, not a) are not split - there the union rule
// of the sink applies; the dynamic stages (real key exchanges) cover re-use that is invisible here.
package main

import (
	"fmt"
	"go/token"
	"sort"
	"strings"

	"golang.org/x/tools/go/ssa"
)

type siteWalk struct {
	t      *tr
	secret string
	seen   map[string]bool
	sites  map[string]*node
	stack  []ssa.CallInstruction // calls entered through their result (S3): a parameter returns to its own call
}

const maxStack = 8

func (w *siteWalk) visited(x ssa.Value) bool {
	k := fmt.Sprintf("%p", x)
	for _, c := range w.stack {
		k += fmt.Sprintf("|%p", c)
	}
	if w.seen[k] {
		return true
	}
	w.seen[k] = true
	return false
}

func (w *siteWalk) normal(x ssa.Value) {
	v := w.t.N(x, 'v')
	if v == nil {
		return
	}
	key := "t|" + w.secret + "|" + v.key
	w.sites[key] = w.t.get(key, func(n *node) {
		n.label = "site of " + w.secret + ": " + strings.TrimPrefix(v.label, "[value] ")
		n.deps[v] = true
		if m := w.t.N(x, 'm'); m != nil {
			n.deps[m] = true
		}
	})
}

func (w *siteWalk) degenerate(why, what string, user ssa.Instruction) {
	where := "-"
	if user != nil {
		where = user.Parent().String() + " @" + w.t.pos(user.Pos(), user.Parent())
	}
	key := "t|" + w.secret + "|!" + why + "|" + what + "|" + where
	w.sites[key] = w.t.get(key, func(n *node) {
		n.label = fmt.Sprintf("site of %s: %s (%s) used in %s", w.secret, why, what, where)
		n.deps[w.t.leafNode("no fresh draw: "+why, KNeutral)] = true
	})
}

func (w *siteWalk) walk(x ssa.Value, user ssa.Instruction) {
	if c, ok := x.(*ssa.Const); ok {
		w.degenerate("constant", c.String(), user)
		return
	}
	if x == nil || w.visited(x) {
		return
	}
	t := w.t
	in, _ := x.(ssa.Instruction)
	switch y := x.(type) {
	case *ssa.Phi:
		for _, e := range y.Edges {
			w.walk(e, y)
		}
	case *ssa.Parameter:
		fn := y.Parent()
		idx := -1
		for i, q := range fn.Params {
			if q == y {
				idx = i
			}
		}
		sites, ext := t.callSitesOf(fn)
		if n := len(w.stack); n > 0 { // entered through the result of a call: return to that call only
			top := w.stack[n-1]
			w.stack = w.stack[:n-1]
			if as := callArgs(top.Common()); idx >= 0 && idx < len(as) {
				w.walk(as[idx], top)
			}
			w.stack = append(w.stack, top)
			return
		}
		for _, s := range sites {
			if as := callArgs(s.Common()); idx >= 0 && idx < len(as) {
				w.walk(as[idx], s)
			}
		}
		if len(ext) > 0 || len(sites) == 0 && token.IsExported(fn.Name()) {
			w.degenerate("caller-supplied", "parameter "+y.Name()+" of "+fn.String(), nil)
		}
	case *ssa.FreeVar:
		for _, mc := range t.closures[y.Parent()] {
			for i, fv := range y.Parent().FreeVars {
				if fv == y && i < len(mc.Bindings) {
					w.walk(mc.Bindings[i], mc)
				}
			}
		}
	case *ssa.Call:
		w.call(y, y, -1)
	case *ssa.Extract:
		switch tu := y.Tuple.(type) {
		case *ssa.Call:
			w.call(y, tu, y.Index)
		case *ssa.TypeAssert:
			if y.Index == 0 {
				w.walk(tu.X, tu)
			} else {
				w.normal(x)
			}
		default:
			w.normal(x)
		}
	case *ssa.ChangeType:
		w.walk(y.X, in)
	case *ssa.ChangeInterface:
		w.walk(y.X, in)
	case *ssa.MakeInterface:
		w.walk(y.X, in)
	case *ssa.TypeAssert:
		w.walk(y.X, in)
	case *ssa.Slice:
		w.walk(y.X, in)
	case *ssa.SliceToArrayPointer:
		w.walk(y.X, in)
	case *ssa.UnOp:
		if y.Op != token.MUL {
			w.normal(x)
			return
		}
		switch a := y.X.(type) {
		case *ssa.Alloc:
			var vals []ssa.Value
			for _, r := range *a.Referrers() {
				switch r := r.(type) {
				case *ssa.Store:
					if r.Addr == a {
						vals = append(vals, r.Val)
						continue
					}
				case *ssa.UnOp:
					if r.Op == token.MUL {
						continue
					}
				case *ssa.DebugRef:
					continue
				}
				w.normal(x) // the address escapes: somebody else may write the cell
				return
			}
			if len(vals) == 0 {
				w.degenerate("zero value", "local "+a.Name()+" is never written", y)
			}
			for _, v := range vals {
				w.walk(v, y)
			}
		case *ssa.FieldAddr:
			k, _ := fieldOf(a)
			w.degenerate("re-read from long-lived memory", "field "+k.typ+"."+t.fieldName[k], y)
		case *ssa.Global:
			if a.Pkg != nil && expandedPkg(a.Pkg.Pkg.Path()) {
				w.degenerate("re-read from long-lived memory", "global "+a.String(), y)
			} else {
				w.normal(x)
			}
		default:
			w.normal(x)
		}
	default:
		w.normal(x)
	}
}

func (w *siteWalk) call(x ssa.Value, c *ssa.Call, idx int) {
	fns := w.t.calleesOf(c)
	if _, leaf := w.t.leafOf(c.Common(), fns); leaf {
		w.normal(x)
		return
	}
	any := false
	push := len(w.stack) < maxStack
	if push {
		w.stack = append(w.stack, c)
	} else {
		w.stack = nil // too deep: fall back to all call sites
	}
	for _, f := range fns {
		if !expanded(f) {
			continue
		}
		for _, r := range returnsOf(f) {
			for i, v := range r.Results {
				if idx < 0 && len(r.Results) == 1 || i == idx {
					any = true
					w.walk(v, r)
				}
			}
		}
	}
	if push {
		w.stack = w.stack[:len(w.stack)-1]
	}
	if !any {
		w.normal(x)
	}
}

// sitesOf: the site nodes of one secret, sorted by key
func (t *tr) sitesOf(secret string, starts []ssa.Value, users []ssa.Instruction) []*node {
	w := &siteWalk{t: t, secret: secret, seen: map[string]bool{}, sites: map[string]*node{}}
	for i, s := range starts {
		w.walk(s, users[i])
	}
	var keys []string
	for k := range w.sites {
		keys = append(keys, k)
	}
	sort.Strings(keys)
	var out []*node
	for _, k := range keys {
		out = append(out, w.sites[k])
	}
	return out
}

// storedInto: the values stored through any &_.F of field k in expanded code
func (t *tr) storedInto(k fieldKey) (vals []ssa.Value, users []ssa.Instruction) {
	for _, u := range t.fieldUses[k] {
		fa, ok := u.(*ssa.FieldAddr)
		if !ok {
			continue
		}
		for _, r := range *fa.Referrers() {
			if st, isS := r.(*ssa.Store); isS && st.Addr == fa {
				vals = append(vals, st.Val)
				users = append(users, st)
			}
		}
	}
	return
}
