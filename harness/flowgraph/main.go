// flowgraph - translator for property C19 (trusted; the edge rules are in rules.go).
//
//	flowgraph <repo root> <out FlowGraph.v> <out flowgraph.json>
//
// Loads the packages "." and "./telegram" (and everything they import) of the module at <repo root>
// with go/packages, builds go/ssa for the whole program and a CHA call graph, and emits the
// DEPENDENCY graph (edge n -> m: "n is computed from / overwritten with data of m") of the backward
// slices of the four key-agreement secrets.  Coq re-computes reachability on the emitted graph and
// decides the property (Misc/Taint.v, Inst/C19i.v); what is trusted here is the construction of nodes
// and edges.  The slice is built on demand from the four sinks, so only nodes that some secret
// depends on (plus the math/rand.Seed call sites) are emitted.
//
// Expanded code  = functions of packages github.com/xelaj/mtproto/... and github.com/xelaj/go-dry.
// Everything else is a LEAF, classified by import path:
//
//	crypto/rand.*                                       -> OS    (functions, methods, the global Reader)
//	math/rand.*, math/rand/v2.*, any other ".../rand"   -> PRNG  (rand.New, NewSource, Read, Intn, methods ...)
//	call sites of the package-level math/rand.Seed      -> SEED  (the node of the call site)
//	time.Now/Since/Until and methods of time.Time       -> TIME
//	all other leaves, constants, caller-supplied inputs, network input -> NEUTRAL
//
// A node "math/rand <global source>" (PRNG) is a dependency of every package-level math/rand
// function and itself depends on every math/rand.Seed call site in expanded code; the Seed sites
// reachable in the call graph from NewMTProto / telegram.NewClient / package initialisers are listed
// separately (seed_sites).
//
// Sinks (anchors of the secrets; a missing anchor leaves the sink without dependencies, which fails
// secrets_ok because no OS source reaches it):
//
//	secret:nonce     <- content of field Nonce    of every struct of internal/mtproto/objects into whose
//	secret:new_nonce <- content of field NewNonce    field client code stores (server-only types are never stored)
//	secret:dh_b      <- exponent argument of every (*big.Int).Exp call and result 0 of every Return in
//	                    internal/math.MakeGAB
//	secret:srp_a     <- content of field GA of telegram/internal/srp.SrpAnswer (A = g^a mod p, the value
//	                    sent; g and p come from the server, so a is its only source of entropy)
//
// Definition sites (sites.go): every alternative origin of a value that reaches an anchor - through phi,
// parameters/arguments, returned values, copies, local cells - is a node "site of <secret>: ..." listed in
// `sites`; the Coq check holds each of them to the standard of the secret (an OS source flows into it,
// nothing reproducible does); a constant, zero, caller-supplied or re-read (cached) origin is a site
// without any source and fails.
//
// Output is deterministic: nodes sorted by key, ids = rank, dependency lists sorted; FlowGraph.v is
// rewritten only when its content changes.  flowgraph.json carries statistics and, per secret, the
// shortest path from every non-neutral source (diagnostics for the check; Coq decides).
package main

import (
	"encoding/json"
	"fmt"
	"go/token"
	"go/types"
	"os"
	"path/filepath"
	"sort"
	"strings"

	"golang.org/x/tools/go/callgraph"
	"golang.org/x/tools/go/callgraph/cha"
	"golang.org/x/tools/go/packages"
	"golang.org/x/tools/go/ssa"
	"golang.org/x/tools/go/ssa/ssautil"
)

const (
	KNeutral = iota
	KOS
	KPrng
	KTime
	KSeed
)

var kindName = []string{"KNeutral", "KOS", "KPrng", "KTime", "KSeed"}

const modPath = "github.com/xelaj/mtproto"
const dryPath = "github.com/xelaj/go-dry"

// Leaf contracts (R5).  Default: a leaf may write through every reference-holding argument.
// "none": the callee only reads its arguments, keeps no reference to them, and its result is fresh or
// immutable.  "recv": only the receiver (argument 0) is written (the other arguments are read).
// Every entry is a documented contract of the standard library / pkg/errors.
var leafContract = map[string]string{
	// formatting and error construction
	"fmt.Errorf": "none", "fmt.Sprintf": "none", "fmt.Sprint": "none", "fmt.Sprintln": "none",
	"errors.New": "none", "github.com/pkg/errors.New": "none", "github.com/pkg/errors.Errorf": "none",
	"github.com/pkg/errors.Wrap": "none", "github.com/pkg/errors.Wrapf": "none",
	"github.com/pkg/errors.WithStack": "none", "github.com/pkg/errors.WithMessage": "none",
	// byte-slice readers
	"bytes.Equal": "none", "bytes.Compare": "none", "bytes.Join": "none", "encoding/hex.EncodeToString": "none",
	"crypto/sha1.Sum": "none", "crypto/sha256.Sum256": "none", "crypto/sha512.Sum512": "none",
	// io.Writer: "Write must not modify the slice data, even temporarily. Implementations must not retain p."
	"(io.Writer).Write": "recv", "(*bytes.Buffer).Write": "recv",
	// net.Conn: Write does not modify or retain p (io.Writer contract); a deadline changes WHEN a later
	// Read/Write gives up, never WHICH bytes are transferred, so it is no data flow into the connection
	"(net.Conn).Write": "none", "(*net.conn).Write": "none", "(*net.TCPConn).Write": "none",
	"(net.Conn).SetDeadline": "none", "(net.Conn).SetReadDeadline": "none", "(net.Conn).SetWriteDeadline": "none",
	"(*net.conn).SetDeadline": "none", "(*net.conn).SetReadDeadline": "none", "(*net.conn).SetWriteDeadline": "none",
	// builtins
	"builtin copy": "recv", "builtin len": "none", "builtin cap": "none", "builtin append": "recv",
	"builtin delete": "recv", "builtin close": "recv", "builtin panic": "none", "builtin print": "none",
	"builtin println": "none", "builtin recover": "none", "builtin min": "none", "builtin max": "none",
}

func init() {
	// math/big.Int: "the result is the receiver"; operands are only read
	for _, m := range []string{"Bytes", "Cmp", "CmpAbs", "Sign", "BitLen", "Int64", "Uint64", "IsInt64", "IsUint64",
		"String", "Text", "Bit", "ProbablyPrime", "TrailingZeroBits"} {
		leafContract["(*math/big.Int)."+m] = "none"
	}
	for _, m := range []string{"Exp", "Add", "Sub", "Mul", "Div", "Mod", "Quo", "Rem", "Set", "SetBytes", "SetInt64",
		"SetUint64", "SetBit", "SetString", "And", "AndNot", "Or", "Xor", "Not", "Lsh", "Rsh", "Neg", "Abs", "ModInverse",
		"ModSqrt", "Sqrt", "Rand", "MulRange", "Binomial"} {
		leafContract["(*math/big.Int)."+m] = "recv"
	}
}

// mayAlias: may the (reference-typed) result of leaf `name` share memory with its argument number i?
func mayAlias(name string, i int) bool { return mayWrite(name, i) }

// mayWrite: may leaf `name` write through its argument number i?
func mayWrite(name string, i int) bool {
	switch leafContract[name] {
	case "none":
		return false
	case "recv":
		return i == 0
	}
	return true
}

type fieldKey struct {
	typ string
	idx int
}

type node struct {
	key, label string
	kind       int
	deps       map[*node]bool
	id         int
	val        ssa.Value
	call       ssa.CallInstruction
	field      *fieldKey
	facet      byte
	leaf       bool
}

type tr struct {
	root      string
	prog      *ssa.Program
	cg        *callgraph.Graph
	nodes     map[string]*node
	queue     []*node
	fieldUses map[fieldKey][]ssa.Value
	fieldName map[fieldKey]string
	fieldStor map[fieldKey]bool
	globUses  map[*ssa.Global][]ssa.Instruction
	closures  map[*ssa.Function][]*ssa.MakeClosure
	callees   map[ssa.CallInstruction][]*ssa.Function
	seedSites []ssa.CallInstruction
	funcs     []*ssa.Function // expanded functions with bodies, sorted
	live      func(site ssa.CallInstruction, callee *ssa.Function) bool
}

func fnPkg(fn *ssa.Function) string {
	for fn != nil {
		if fn.Pkg != nil {
			return fn.Pkg.Pkg.Path()
		}
		if o := fn.Object(); o != nil && o.Pkg() != nil {
			return o.Pkg().Path()
		}
		if fn.Origin() != nil {
			fn = fn.Origin()
		} else {
			fn = fn.Parent()
		}
	}
	return ""
}

func expandedPkg(p string) bool {
	return p == modPath || strings.HasPrefix(p, modPath+"/") || p == dryPath || strings.HasPrefix(p, dryPath+"/")
}

func expanded(fn *ssa.Function) bool {
	return fn != nil && len(fn.Blocks) > 0 && expandedPkg(fnPkg(fn))
}

func randPkg(p string) bool {
	return p != "crypto/rand" && (p == "math/rand" || p == "math/rand/v2" || strings.HasSuffix(p, "/rand"))
}

func classify(pkg, name string, recv types.Type) int {
	switch {
	case pkg == "crypto/rand":
		return KOS
	case randPkg(pkg):
		return KPrng
	case pkg == "time":
		if recv != nil {
			s := recv.String()
			if s == "time.Time" || s == "*time.Time" {
				return KTime
			}
			return KNeutral
		}
		if name == "Now" || name == "Since" || name == "Until" {
			return KTime
		}
	}
	return KNeutral
}

func refLike(t types.Type, seen map[types.Type]bool) bool {
	if seen[t] || t == types.Universe.Lookup("error").Type() {
		return false
	}
	seen[t] = true
	switch u := t.Underlying().(type) {
	case *types.Basic:
		return u.Kind() == types.UnsafePointer
	case *types.Struct:
		for i := 0; i < u.NumFields(); i++ {
			if refLike(u.Field(i).Type(), seen) {
				return true
			}
		}
		return false
	case *types.Array:
		return refLike(u.Elem(), seen)
	case *types.Tuple:
		for i := 0; i < u.Len(); i++ {
			if refLike(u.At(i).Type(), seen) {
				return true
			}
		}
		return false
	}
	return true // pointer, slice, map, chan, interface, signature, type parameter, opaque iterator
}

// error values are treated as immutable scalars (R5 is not applied to them)
func isRef(t types.Type) bool {
	return t != types.Universe.Lookup("error").Type() && refLike(t, map[types.Type]bool{})
}

func (t *tr) pos(p token.Pos, fn *ssa.Function) string {
	if !p.IsValid() && fn != nil {
		p = fn.Pos()
	}
	if !p.IsValid() {
		return "-"
	}
	q := t.prog.Fset.Position(p)
	f := q.Filename
	if r, err := filepath.Rel(t.root, f); err == nil && !strings.HasPrefix(r, "..") {
		f = r
	} else if i := strings.Index(f, "/pkg/mod/"); i >= 0 {
		f = f[i+len("/pkg/mod/"):]
	} else if i := strings.Index(f, "/src/"); i >= 0 {
		f = "GOROOT" + f[i:]
	}
	return fmt.Sprintf("%s:%d", f, q.Line)
}

func (t *tr) get(key string, mk func(n *node)) *node {
	if n, ok := t.nodes[key]; ok {
		return n
	}
	n := &node{key: key, deps: map[*node]bool{}}
	mk(n)
	t.nodes[key] = n
	t.queue = append(t.queue, n)
	return n
}

func short(s string) string {
	s = strings.ReplaceAll(s, "\n", " ")
	if len(s) > 110 {
		s = s[:107] + "..."
	}
	return s
}

func structKey(x types.Type) (fieldKey, *types.Struct, bool) {
	if p, ok := x.Underlying().(*types.Pointer); ok {
		x = p.Elem()
	}
	st, ok := x.Underlying().(*types.Struct)
	if !ok {
		return fieldKey{}, nil, false
	}
	return fieldKey{typ: types.TypeString(x, nil)}, st, true
}

func fieldOf(v ssa.Value) (fieldKey, bool) {
	var x ssa.Value
	var idx int
	switch f := v.(type) {
	case *ssa.FieldAddr:
		x, idx = f.X, f.Field
	case *ssa.Field:
		x, idx = f.X, f.Field
	default:
		return fieldKey{}, false
	}
	k, _, ok := structKey(x.Type())
	k.idx = idx
	return k, ok
}

func (t *tr) add(n *node, d *node) {
	if d != nil && d != n {
		n.deps[d] = true
	}
}

// args of a call with the parameter index they correspond to
func callArgs(cc *ssa.CallCommon) []ssa.Value {
	if cc.IsInvoke() {
		return append([]ssa.Value{cc.Value}, cc.Args...)
	}
	return cc.Args
}

type leafInfo struct {
	name    string
	kind    int
	seed    bool
	glob    bool // package-level math/rand function using the global source
	builtin bool
}

func (t *tr) leafOf(cc *ssa.CallCommon, fns []*ssa.Function) (leafInfo, bool) {
	if _, ok := cc.Value.(*ssa.Builtin); ok {
		return leafInfo{name: "builtin " + cc.Value.Name(), builtin: true}, true
	}
	if cc.IsInvoke() {
		ext := len(fns) == 0
		for _, f := range fns {
			if !expanded(f) {
				ext = true
			}
		}
		if !ext {
			return leafInfo{}, false
		}
		p := ""
		if cc.Method.Pkg() != nil {
			p = cc.Method.Pkg().Path()
		}
		return leafInfo{name: cc.Method.FullName(), kind: classify(p, cc.Method.Name(), cc.Value.Type())}, true
	}
	if f := cc.StaticCallee(); f != nil {
		if expanded(f) {
			return leafInfo{}, false
		}
		p := fnPkg(f)
		var recv types.Type
		if r := f.Signature.Recv(); r != nil {
			recv = r.Type()
		}
		li := leafInfo{name: f.String(), kind: classify(p, f.Name(), recv)}
		if (p == "math/rand" || p == "math/rand/v2") && recv == nil && f.Parent() == nil {
			switch f.Name() {
			case "New", "NewSource", "NewZipf", "NewPCG", "NewChaCha8":
			case "Seed":
				li.seed, li.kind = true, KSeed
			default:
				li.glob = true
			}
		}
		return li, true
	}
	// func value: expanded targets are handled by R2; any other target is an unknown leaf
	for _, f := range fns {
		if !expanded(f) {
			return leafInfo{name: "func value outside the expanded packages"}, true
		}
	}
	if len(fns) == 0 {
		return leafInfo{name: "func value without known target"}, true
	}
	return leafInfo{}, false
}

func derefT(ty types.Type) types.Type {
	if p, ok := ty.Underlying().(*types.Pointer); ok {
		return p.Elem()
	}
	return ty
}

func (t *tr) prescan() {
	all := ssautil.AllFunctions(t.prog)
	for f := range all {
		if expanded(f) {
			t.funcs = append(t.funcs, f)
		}
	}
	sort.Slice(t.funcs, func(i, j int) bool { return t.funcs[i].String() < t.funcs[j].String() })
	for i := 1; i < len(t.funcs); i++ {
		if t.funcs[i].String() == t.funcs[i-1].String() {
			fatal("two expanded functions share the name " + t.funcs[i].String())
		}
	}
	// dynamic types of interface values: only types that some MakeInterface in the whole program
	// (standard library included) converts to an interface can be the receiver of an interface call
	// ... and only a function that is used as a value somewhere (operand other than the callee
	// position of a static call) can be the target of a call through a func value
	made := map[string]bool{}
	taken := map[*ssa.Function]bool{}
	for f := range all {
		for _, b := range f.Blocks {
			for _, in := range b.Instrs {
				if mi, ok := in.(*ssa.MakeInterface); ok {
					made[types.TypeString(mi.X.Type(), nil)] = true
				}
				var calleePos *ssa.Value
				if c, ok := in.(ssa.CallInstruction); ok && !c.Common().IsInvoke() {
					calleePos = &c.Common().Value
				}
				for _, op := range in.Operands(nil) {
					if fn, ok := (*op).(*ssa.Function); ok && op != calleePos {
						taken[fn] = true
					}
				}
			}
		}
	}
	t.live = func(site ssa.CallInstruction, callee *ssa.Function) bool {
		if site == nil {
			return true
		}
		if !site.Common().IsInvoke() {
			return site.Common().StaticCallee() != nil || taken[callee]
		}
		r := callee.Signature.Recv()
		return r == nil || made[types.TypeString(r.Type(), nil)]
	}
	for _, cn := range t.cg.Nodes {
		for _, e := range cn.Out {
			if e.Site != nil && t.live(e.Site, e.Callee.Func) {
				t.callees[e.Site] = append(t.callees[e.Site], e.Callee.Func)
			}
		}
	}
	for _, fs := range t.callees {
		sort.Slice(fs, func(i, j int) bool { return fs[i].String() < fs[j].String() })
	}
	for _, f := range t.funcs {
		for _, b := range f.Blocks {
			for _, in := range b.Instrs {
				for _, op := range in.Operands(nil) {
					if g, ok := (*op).(*ssa.Global); ok {
						t.globUses[g] = append(t.globUses[g], in)
					}
				}
				switch x := in.(type) {
				case *ssa.FieldAddr, *ssa.Field:
					v := in.(ssa.Value)
					if k, ok := fieldOf(v); ok {
						t.fieldUses[k] = append(t.fieldUses[k], v)
						var base types.Type
						if fa, isA := x.(*ssa.FieldAddr); isA {
							base = fa.X.Type()
							for _, r := range *fa.Referrers() {
								if st, isS := r.(*ssa.Store); isS && st.Addr == v {
									t.fieldStor[k] = true
								}
							}
						} else {
							base = x.(*ssa.Field).X.Type()
						}
						_, st, _ := structKey(base)
						t.fieldName[k] = st.Field(k.idx).Name()
					}
				case *ssa.MakeClosure:
					f := x.Fn.(*ssa.Function)
					t.closures[f] = append(t.closures[f], x)
				case ssa.CallInstruction:
					if c := x.Common().StaticCallee(); c != nil && c.Name() == "Seed" && c.Signature.Recv() == nil &&
						(fnPkg(c) == "math/rand" || fnPkg(c) == "math/rand/v2") {
						t.seedSites = append(t.seedSites, x)
					}
				}
			}
		}
	}
}

// coqComment makes a label safe inside a Coq comment: Coq lexes string literals and nested comment
// brackets inside comments, so quotes and everything outside a small ASCII set are replaced.
func coqComment(s string) string {
	var b strings.Builder
	for _, r := range s {
		switch {
		case r >= 'a' && r <= 'z', r >= 'A' && r <= 'Z', r >= '0' && r <= '9', strings.ContainsRune(" _./:,#$&<>=+-[]()@*{}|%!;~^", r):
			b.WriteRune(r)
		default:
			b.WriteByte('?')
		}
	}
	return strings.ReplaceAll(strings.ReplaceAll(b.String(), "(*", "( *"), "*)", "* )")
}

func fatal(s string) {
	fmt.Fprintln(os.Stderr, "flowgraph: "+s)
	os.Exit(2)
}

func (t *tr) findFunc(name string) *ssa.Function {
	for _, f := range t.funcs {
		if f.String() == name {
			return f
		}
	}
	return nil
}

// functions reachable in the call graph (through expanded functions only) from the constructors
func (t *tr) reachableFrom(starts []string) map[*ssa.Function]bool {
	seen := map[*ssa.Function]bool{}
	var stack []*ssa.Function
	push := func(f *ssa.Function) {
		if expanded(f) && !seen[f] {
			seen[f] = true
			stack = append(stack, f)
		}
	}
	for _, s := range starts {
		push(t.findFunc(s))
	}
	for _, f := range t.funcs { // package initialisers run before any constructor
		if f.Name() == "init" || strings.HasPrefix(f.Name(), "init#") {
			push(f)
		}
	}
	for len(stack) > 0 {
		f := stack[len(stack)-1]
		stack = stack[:len(stack)-1]
		if cn := t.cg.Nodes[f]; cn != nil {
			for _, e := range cn.Out {
				if t.live(e.Site, e.Callee.Func) {
					push(e.Callee.Func)
				}
			}
		}
		for _, a := range f.AnonFuncs {
			push(a)
		}
	}
	return seen
}

type secretOut struct {
	Name      string              `json:"name"`
	ID        int                 `json:"id"`
	Nodes     int                 `json:"nodes"`
	Edges     int                 `json:"edges"`
	Anchors   []string            `json:"anchors"`
	Sources   map[string][]string `json:"sources"`
	BadPaths  [][]string          `json:"bad_paths"`
	GoodPaths [][]string          `json:"good_paths"`
	Sites     []secretOut         `json:"sites,omitempty"`
}

func main() {
	if len(os.Args) != 4 {
		fatal("usage: flowgraph <repo root> <FlowGraph.v> <flowgraph.json>")
	}
	root, _ := filepath.Abs(os.Args[1])
	cfg := &packages.Config{Mode: packages.LoadAllSyntax, Dir: root, Tests: false,
		Env: append(os.Environ(), "GOFLAGS=-mod=mod", "GOPROXY=off", "GOSUMDB=off", "GOTOOLCHAIN=local", "CGO_ENABLED=0")}
	pkgs, err := packages.Load(cfg, ".", "./telegram")
	if err != nil {
		fatal("load: " + err.Error())
	}
	if packages.PrintErrors(pkgs) > 0 {
		fatal("the tree does not type-check")
	}
	prog, _ := ssautil.AllPackages(pkgs, ssa.InstantiateGenerics)
	prog.Build()
	t := &tr{root: root, prog: prog, cg: cha.CallGraph(prog), nodes: map[string]*node{},
		fieldUses: map[fieldKey][]ssa.Value{}, fieldName: map[fieldKey]string{}, fieldStor: map[fieldKey]bool{},
		globUses: map[*ssa.Global][]ssa.Instruction{}, closures: map[*ssa.Function][]*ssa.MakeClosure{},
		callees: map[ssa.CallInstruction][]*ssa.Function{}}
	t.prescan()

	// R6 sinks
	sink := func(name string) *node {
		return t.get("s|"+name, func(n *node) { n.label = "secret:" + name })
	}
	sNonce, sNew, sB, sA := sink("nonce"), sink("new_nonce"), sink("dh_b"), sink("srp_a")
	anchors := map[*node][]string{}
	startV := map[*node][]ssa.Value{}
	startU := map[*node][]ssa.Instruction{}
	start := func(s *node, v ssa.Value, u ssa.Instruction) {
		startV[s] = append(startV[s], v)
		startU[s] = append(startU[s], u)
	}
	startField := func(s *node, k fieldKey) {
		vs, us := t.storedInto(k)
		for i := range vs {
			start(s, vs[i], us[i])
		}
	}
	anchor := func(s *node, d *node) {
		if d != nil {
			t.add(s, d)
			anchors[s] = append(anchors[s], d.label)
		}
	}
	var fks []fieldKey
	for k := range t.fieldStor {
		fks = append(fks, k)
	}
	sort.Slice(fks, func(i, j int) bool {
		return fks[i].typ < fks[j].typ || fks[i].typ == fks[j].typ && fks[i].idx < fks[j].idx
	})
	for _, k := range fks {
		if strings.HasPrefix(k.typ, modPath+"/internal/mtproto/objects.") {
			switch t.fieldName[k] {
			case "Nonce":
				anchor(sNonce, t.F(k, 'm'))
				startField(sNonce, k)
			case "NewNonce":
				anchor(sNew, t.F(k, 'm'))
				startField(sNew, k)
			}
		}
	}
	if f := t.findFunc(modPath + "/internal/math.MakeGAB"); f != nil {
		for _, b := range f.Blocks {
			for _, in := range b.Instrs {
				switch x := in.(type) {
				case *ssa.Return:
					if len(x.Results) > 0 {
						anchor(sB, t.N(x.Results[0], 'v'))
						anchor(sB, t.N(x.Results[0], 'm'))
						start(sB, x.Results[0], x)
					}
				case ssa.CallInstruction:
					if c := x.Common().StaticCallee(); c != nil && c.String() == "(*math/big.Int).Exp" && len(x.Common().Args) == 4 {
						anchor(sB, t.N(x.Common().Args[2], 'v'))
						anchor(sB, t.N(x.Common().Args[2], 'm'))
						start(sB, x.Common().Args[2], x)
					}
				}
			}
		}
	}
	for _, k := range fks { // the SRP public value A = g^a mod p that the client sends: a is combined into it
		if k.typ == modPath+"/telegram/internal/srp.SrpAnswer" && t.fieldName[k] == "GA" {
			anchor(sA, t.F(k, 'm'))
			startField(sA, k)
		}
	}
	// definition sites (sites.go): every alternative origin of an anchored value is a node of its own
	secretsL := []*node{sNonce, sNew, sB, sA}
	siteNodes := map[*node][]*node{}
	for _, s := range secretsL {
		siteNodes[s] = t.sitesOf(strings.TrimPrefix(s.label, "secret:"), startV[s], startU[s])
		for _, sn := range siteNodes[s] {
			t.add(s, sn)
		}
	}
	// Seed sites: every one is a node (and a dependency of the global source); the ones reachable
	// from client construction are listed separately.
	reach := t.reachableFrom([]string{modPath + ".NewMTProto", modPath + "/telegram.NewClient"})
	var seedAll, seedCtor []*node
	for _, c := range t.seedSites {
		sn := t.hub(c)
		seedAll = append(seedAll, sn)
		t.add(t.globalSource(), sn)
		if reach[c.Parent()] {
			seedCtor = append(seedCtor, sn)
		}
	}
	for len(t.queue) > 0 {
		n := t.queue[0]
		t.queue = t.queue[1:]
		t.expand(n)
	}

	// deterministic numbering
	var ns []*node
	for _, n := range t.nodes {
		ns = append(ns, n)
	}
	sort.Slice(ns, func(i, j int) bool { return ns[i].key < ns[j].key })
	for i, n := range ns {
		n.id = i
	}
	depsOf := func(n *node) []*node {
		var d []*node
		for m := range n.deps {
			d = append(d, m)
		}
		sort.Slice(d, func(i, j int) bool { return d[i].id < d[j].id })
		return d
	}
	ids := func(l []*node) string {
		var s []string
		for _, n := range l {
			s = append(s, fmt.Sprint(n.id))
		}
		return "[" + strings.Join(s, "; ") + "]"
	}
	sortN := func(l []*node) []*node {
		sort.Slice(l, func(i, j int) bool { return l[i].id < l[j].id })
		return l
	}
	edges := 0
	var b strings.Builder
	b.WriteString("(* generated by harness/flowgraph from the current tree - do not edit.\n   dependency graph (node, kind, nodes it depends on) of the backward slices of the four secrets. *)\n")
	b.WriteString("From Coq Require Import NArith List.\nFrom MTV Require Import Misc.Taint.\nImport ListNotations.\nOpen Scope N_scope.\n")
	b.WriteString("Definition graph : list (N * (kind * list N)) := [\n")
	for i, n := range ns {
		d := depsOf(n)
		edges += len(d)
		sep := ";"
		if i == len(ns)-1 {
			sep = ""
		}
		lab := coqComment(n.label)
		fmt.Fprintf(&b, "  (%d, (%s, %s))%s (* %s *)\n", n.id, kindName[n.kind], ids(d), sep, lab)
	}
	b.WriteString("].\n")
	secrets := secretsL
	fmt.Fprintf(&b, "Definition secrets : list N := %s.\n", ids(secrets))
	fmt.Fprintf(&b, "Definition seed_sites : list N := %s.\n", ids(sortN(seedCtor)))
	var sl []string
	for _, s := range secrets {
		sl = append(sl, fmt.Sprintf("(%d, %s)", s.id, ids(sortN(append([]*node(nil), siteNodes[s]...)))))
	}
	fmt.Fprintf(&b, "(* definition sites: (secret, alternative origins of its value) *)\nDefinition sites : list (N * list N) := [%s].\n", strings.Join(sl, "; "))

	// per-secret statistics and shortest paths (diagnostics for the check; Coq decides)
	statsOf := func(s *node) secretOut {
		so := secretOut{Name: s.label, ID: s.id, Sources: map[string][]string{}}
		parent := map[*node]*node{s: nil}
		order := []*node{s}
		for i := 0; i < len(order); i++ {
			for _, m := range depsOf(order[i]) {
				so.Edges++
				if _, ok := parent[m]; !ok {
					parent[m] = order[i]
					order = append(order, m)
				}
			}
		}
		so.Nodes = len(order)
		for _, n := range order {
			if n.kind == KNeutral && !n.leaf {
				continue
			}
			so.Sources[kindName[n.kind]] = append(so.Sources[kindName[n.kind]], n.label)
			if n.kind != KNeutral {
				var p []string
				for m := n; m != nil; m = parent[m] {
					p = append(p, fmt.Sprintf("[%d %s] %s", m.id, kindName[m.kind], m.label))
				}
				if n.kind == KOS {
					so.GoodPaths = append(so.GoodPaths, p)
				} else {
					so.BadPaths = append(so.BadPaths, p)
				}
			}
		}
		for _, l := range so.Sources {
			sort.Strings(l)
		}
		return so
	}
	var outS []secretOut
	for _, s := range secrets {
		so := statsOf(s)
		so.Name, so.Anchors = strings.TrimPrefix(s.label, "secret:"), anchors[s]
		for _, sn := range sortN(append([]*node(nil), siteNodes[s]...)) {
			st := statsOf(sn)
			if len(st.GoodPaths) > 1 {
				st.GoodPaths = st.GoodPaths[:1]
			}
			so.Sites = append(so.Sites, st)
		}
		outS = append(outS, so)
	}
	var seedL, seedC []string
	for _, n := range sortN(seedAll) {
		seedL = append(seedL, n.label)
	}
	for _, n := range seedCtor {
		seedC = append(seedC, n.label)
	}
	js, _ := json.MarshalIndent(map[string]interface{}{
		"nodes": len(ns), "edges": edges, "secrets": outS, "seed_sites_all": seedL, "seed_sites_from_construction": seedC,
		"expanded_functions": len(t.funcs), "leaf_contracts": len(leafContract),
	}, "", " ")
	if err := os.WriteFile(os.Args[3], append(js, '\n'), 0o644); err != nil {
		fatal(err.Error())
	}
	txt := b.String()
	if old, err := os.ReadFile(os.Args[2]); err != nil || string(old) != txt {
		if err := os.WriteFile(os.Args[2], []byte(txt), 0o644); err != nil {
			fatal(err.Error())
		}
	}
	fmt.Printf("flowgraph: %d nodes, %d edges, %d expanded functions, %d Seed sites (%d reachable from construction)\n",
		len(ns), edges, len(t.funcs), len(seedAll), len(seedCtor))
}
