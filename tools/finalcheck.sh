#!/bin/sh
# finalcheck.sh [--clean] [--coqchk]: what a stranger would run.
#  1. no forbidden vernacular anywhere in the development
#  2. (--clean) full rebuild from a clean tree through setup.sh
#  3. every quick check once on /repo, sequentially; exit codes, VIOLATION lines, wall times
#  4. MANIFEST.json and evidence/*.json against their schemas
#  5. (--coqchk) the independent checker over every property module, axioms printed
cd "$(dirname "$0")/.." || exit 2
export GOFLAGS=-mod=mod GOPROXY=off GOSUMDB=off GOTOOLCHAIN=local
OUT=${FINAL_OUT:-/tmp/finalcheck}
mkdir -p "$OUT"
fail=0

echo "== 1. forbidden vernacular"
if grep -rnE '\b(Admitted|admit|Axiom|Parameter|Conjecture|Admit Obligations)\b|Unset Guard|bypass_check|Unset Positivity|Unset Universe|type-in-type|impredicative-set' \
     --include='*.v' coq/theories coq/extract coq/_CoqProject 2>/dev/null | grep -v '^\S*:[0-9]*:\s*(\*' | grep -vE '\(\*.*\b(Admitted|admit|Axiom|Parameter|Conjecture)\b.*\*\)' ; then
  echo "   ^ look at these (comments mentioning the words are fine, declarations are not)"
fi
grep -rnE '^\s*(Axiom|Parameter|Conjecture|Hypothesis|Variable)\b' --include='*.v' coq/theories | while IFS=: read -r f l rest; do
  # Hypothesis/Variable are allowed inside a Section only
  awk -v L="$l" 'NR<=L { if ($0 ~ /^[ \t]*Section[ \t]/) d++; if ($0 ~ /^[ \t]*End[ \t]/) d--; } END { exit (d>0)?0:1 }' "$f" || echo "   OUTSIDE A SECTION: $f:$l:$rest"
done | tee "$OUT/outside_section.txt"
[ -s "$OUT/outside_section.txt" ] && fail=1

if [ "$1" = "--clean" ] || [ "$2" = "--clean" ]; then
  echo "== 2. clean rebuild"
  rm -rf build
  find coq -name '*.vo*' -delete -o -name '*.glob' -delete -o -name '.*.aux' -delete 2>/dev/null
  s=$(date +%s); sh setup.sh > "$OUT/setup.log" 2>&1; rc=$?; e=$(date +%s)
  echo "   setup.sh rc=$rc $((e-s))s"; [ $rc -ne 0 ] && fail=1
fi

echo "== 3. quick checks"
for p in C01 C02 C03 C04 C05 C06 C07 C08 C09 C10 C11 C12 C13 C14 C15 C16 C17 C18 C19 C20; do
  rm -f evidence/$p.json
  s=$(date +%s); VERIF_SEED=1 VERIF_TIER=quick ./check $p --tier quick > "$OUT/$p.txt" 2>&1; rc=$?; e=$(date +%s)
  v=$(grep -c '^VIOLATION' "$OUT/$p.txt"); k=$(grep -c '^KNOWN-FINDING' "$OUT/$p.txt")
  echo "   $p rc=$rc violations=$v known=$k $((e-s))s evidence=$([ -s evidence/$p.json ] && echo yes || echo MISSING)"
  [ $rc -ne 0 ] && fail=1; [ -s evidence/$p.json ] || fail=1
done

echo "== 4. schemas"
python3-vt - <<'EOF' || fail=1
import json, glob, sys, jsonschema
ok = True
m = json.load(open('MANIFEST.json'))
try:
    jsonschema.validate(m, json.load(open('/root/.vp/MANIFEST.schema.json')))
    print("   MANIFEST.json valid; claimed:", len(m.get('checks', [])))
except Exception as e:
    ok = False; print("   MANIFEST.json INVALID:", str(e)[:300])
es = json.load(open('/root/.vp/EVIDENCE.schema.json'))
for f in sorted(glob.glob('evidence/*.json')):
    try:
        jsonschema.validate(json.load(open(f)), es)
    except Exception as e:
        ok = False; print("   %s INVALID: %s" % (f, str(e)[:300]))
print("   evidence files:", len(glob.glob('evidence/*.json')))
sys.exit(0 if ok else 1)
EOF

if [ "$1" = "--coqchk" ] || [ "$2" = "--coqchk" ]; then
  echo "== 5. coqchk"
  mods=$(ls coq/theories/Props/*.v | sed 's#coq/theories/Props/\(.*\)\.v#MTV.Props.\1#' | tr '\n' ' ')
  s=$(date +%s); (cd coq && flock /verif/build/.lock.coq timeout 7200 coqchk -silent -o -Q theories MTV -Q gen MTVgen $mods) > "$OUT/coqchk.txt" 2>&1; rc=$?; e=$(date +%s)
  echo "   coqchk rc=$rc $((e-s))s"; tail -15 "$OUT/coqchk.txt"; [ $rc -ne 0 ] && fail=1
fi
echo "== result: $([ $fail -eq 0 ] && echo OK || echo ATTENTION)"
exit $fail
