#!/bin/sh
# seedbatch.sh PROP:dir[:check1,check2] ...   -> /tmp/seedres/<PROP>-<n>.json (sequential)
for spec in "$@"; do
  p=$(echo "$spec" | cut -d: -f1); d=$(echo "$spec" | cut -d: -f2); c=$(echo "$spec" | cut -d: -f3 | tr ',' ' ')
  n=$(basename "$d"); case "$d" in /tmp/seed3-*) n="w3-$n";; /tmp/seed4-*) n="w4-$n";; /tmp/seed5-*) n="w5-$n";; /tmp/seed6-*) n="w6-$n";; /tmp/seed7-*) n="w7-$n";; /tmp/seed8-*) n="w8-$n";; /tmp/seed9-*) n="w9-$n";; /tmp/seed11-*) n="w11-$n";; esac
  python3 /verif/tools/seedeval.py "$p" "$d" $c > /tmp/seedres/$p-$n.json 2>/tmp/seedres/$p-$n.err
  echo "$p-$n done"
done
