#!/bin/sh
# refeval.sh PROP DIR [checks...]: a BEHAVIOUR-PRESERVING change (DIR/patch.diff) applied to a scratch worktree of /repo HEAD;
# the three module suites and the named checks (default: PROP) are run against it.  A VIOLATION here is a false alarm
# (or the change is not as harmless as its author thought).  Result: /tmp/refres/<PROP>-<n>.txt
p=$1; d=$2; shift 2; checks=${*:-$p}
n=$(basename "$d"); tag=$(echo "$d" | tr -cd 'A-Za-z0-9' | tail -c 24)
wt=/tmp/re-wt-$tag; vb=/tmp/re-vb-$tag; out=/tmp/refres/$p-$n.txt
export GOFLAGS=-mod=mod GOPROXY=off GOSUMDB=off GOTOOLCHAIN=local
git -C /repo worktree remove --force $wt 2>/dev/null; rm -rf $vb
git -C /repo worktree add -q --detach $wt HEAD || exit 2
{
  echo "patch: $d"
  if ! git -C $wt apply "$d/patch.diff"; then echo "APPLY-FAILED"; else
    (cd $wt && go build ./... && go build -tags verif ./...) > $vb.build 2>&1 && echo "build ok" || { echo "BUILD-FAILED"; tail -5 $vb.build; }
    for m in . internal/cmd/tlgen telegram/deeplinks; do (cd $wt/$m && go test -vet=off -count=1 ./... > /dev/null 2>&1 && echo "suite $m ok" || echo "suite $m FAILED"); done
    for c in $checks; do
      (cd /verif && VERIF_REPO=$wt VERIF_BUILD=$vb ./check $c --tier quick > $vb.$c.log 2>&1; rc=$?; echo "check $c rc=$rc violations=$(grep -c '^VIOLATION' $vb.$c.log)"; grep -A1 '^VIOLATION' $vb.$c.log | cut -c1-400 | head -8)
    done
  fi
} > $out 2>&1
git -C /repo worktree remove --force $wt; rm -rf $vb $vb.*
echo "$p-$n done"
