#!/usr/bin/env python3
"""seedarchive.py: copy confirmed seeded changes from /tmp/seed-<P>/out/<n> to /verif/seeded/<P>-<n>/
(patch.diff, demonstration, RUN.txt, meta.json extended with what was run here and which checks caught it)."""
import glob
import json
import os
import shutil

for d in sorted(glob.glob("/tmp/seed-C*/out/[0-9]") + glob.glob("/tmp/seed3-C*/out/[0-9]") + glob.glob("/tmp/seed4-C*/out/[0-9]") + glob.glob("/tmp/seed5-C*/out/[0-9]") + glob.glob("/tmp/seed6-C*/out/[0-9]") + glob.glob("/tmp/seed7-C*/out/[0-9]") + glob.glob("/tmp/seed8-C*/out/[0-9]") + glob.glob("/tmp/seed9-C*/out/[0-9]") + glob.glob("/tmp/seed11-C*/out/[0-9]")):
    w3 = d.startswith("/tmp/seed3-")
    w4 = d.startswith("/tmp/seed4-")
    w5 = d.startswith("/tmp/seed5-")
    w6 = d.startswith("/tmp/seed6-")
    w7 = d.startswith("/tmp/seed7-")
    w8 = d.startswith("/tmp/seed8-")
    w9 = d.startswith("/tmp/seed9-")
    w11 = d.startswith("/tmp/seed11-")
    p = d.split("/")[2].split("-")[1]
    n = ("w3-" if w3 else "w4-" if w4 else "w5-" if w5 else "w6-" if w6 else "w7-" if w7 else "w8-" if w8 else "w9-" if w9 else "w11-" if w11 else "") + os.path.basename(d)
    res = "/tmp/seedres/%s-%s.json" % (p, n)
    if not os.path.exists(res):
        continue
    try:
        r = json.load(open(res))
    except Exception:
        continue
    dst = "/verif/seeded/%s-%s" % (p, n)
    os.makedirs(dst, exist_ok=True)
    for f in os.listdir(d):
        if os.path.isfile(os.path.join(d, f)):
            shutil.copy(os.path.join(d, f), os.path.join(dst, f))
    meta = json.load(open(os.path.join(d, "meta.json")))
    meta["confirmed_here"] = {
        "tool": "tools/seedeval.py (scratch worktree of /repo HEAD; never applied to /repo)",
        "patch_applies": r.get("patch_applies"), "builds": r.get("builds"),
        "repo_test_suites_with_patch": r.get("baseline_tests_with_patch"),
        "demo_cmd": r.get("demo_cmd"), "demo_on_clean_tree": r.get("demo_on_clean"), "demo_with_patch": r.get("demo_with_patch"),
    }
    meta["checks_run"] = {k: {"exit": v["rc"], "violation_lines": v["violations"], "first_report": v["first"]} for k, v in r.get("checks", {}).items()}
    meta["caught_by"] = sorted(k for k, v in r.get("checks", {}).items() if v["violations"] > 0)
    hist = "/tmp/seedres/%s-%s.history" % (p, n)
    if os.path.exists(hist):
        meta["history"] = open(hist).read().strip().splitlines()
    with open(os.path.join(dst, "meta.json"), "w") as f:
        json.dump(meta, f, indent=1)
    print(dst, meta["caught_by"])
