#!/bin/sh
# seedqueue.sh : worker; takes "PROP:dir[:checks]" lines from /tmp/seedres/queue.txt (one at a time, under a lock)
# until the line STOP is met; results as seedbatch.sh
Q=/tmp/seedres/queue.txt
while true; do
  spec=$(flock /tmp/seedres/queue.lock sh -c "head -n1 $Q 2>/dev/null; sed -i 1d $Q 2>/dev/null")
  if [ -z "$spec" ]; then sleep 20; continue; fi
  if [ "$spec" = STOP ]; then echo STOP >> $Q; exit 0; fi
  sh /verif/tools/seedbatch.sh "$spec"
done
