#!/usr/bin/env python3
"""seedeval.py <PROP> <dir with patch.diff, RUN.txt, demo*> [check-props...]
Confirms a seeded change in a scratch worktree of /repo HEAD (never /repo itself):
 1. demo passes on the clean tree; 2. patch applies and builds; 3. the repo's test suites still pass;
 4. demo fails with the patch; 5. runs ./check for the given properties (default: PROP) against the
 patched worktree and reports whether a VIOLATION was raised.  Removes the worktree afterwards."""
import json
import os
import re
import shutil
import subprocess
import sys

ENV = dict(os.environ, GOFLAGS="-mod=mod", GOPROXY="off", GOSUMDB="off", GOTOOLCHAIN="local")


def sh(cmd, cwd=None, env=None, timeout=3600):
    p = subprocess.run(cmd, shell=True, cwd=cwd, env=env or ENV, stdout=subprocess.PIPE, stderr=subprocess.STDOUT, timeout=timeout)
    return p.returncode, p.stdout.decode("utf-8", "replace")


def main():
    prop, d = sys.argv[1], os.path.abspath(sys.argv[2])
    props = [a for a in sys.argv[3:] if not a.startswith('dest=') and a != 'demo-only'] or [prop]
    demo_only = 'demo-only' in sys.argv
    tag = re.sub(r"[^A-Za-z0-9]", "", d)[-24:]
    wt = "/tmp/se-wt-" + tag
    vb = "/tmp/se-vb-" + tag
    sh("git -C /repo worktree remove --force %s" % wt)
    shutil.rmtree(vb, ignore_errors=True)
    rc, o = sh("git -C /repo worktree add -q --detach %s HEAD" % wt)
    res = {"property": prop, "dir": d}
    try:
        run = open(d + "/RUN.txt").read()
        seedroot = "/tmp/seed-%s" % prop
        m0 = re.search(r"(/tmp/seed\d*-%s)\b" % prop, run)
        if m0:
            seedroot = m0.group(1)
        elif d.startswith("/tmp/seed"):
            seedroot = os.path.dirname(os.path.dirname(d))
        # placeholders some authors use for "the checkout": treat them as the seed worktree
        for ph in ("<repo root>", "<worktree>", "<repo>", "<REPO>", "$REPO", "<root>", "<module root>", "<checkout>"):
            run = run.replace(ph, seedroot)
        # destination of the demo file: a full path under the seed worktree named in RUN.txt
        gofiles = [f for f in os.listdir(d) if f.endswith(".go")]
        m = re.search(r"(%s/(?!out/)[A-Za-z0-9_./-]+\.go)" % re.escape(seedroot), run)
        if len(sys.argv) > 3 and sys.argv[3].startswith("dest="):
            destfile = sys.argv.pop(3)[5:]
        elif re.search(r"\bcp\s+\S+\s+(\S+\.go)", run):
            destfile = re.search(r"\bcp\s+\S+\s+(\S+\.go)", run).group(1)
            if destfile.startswith(seedroot):
                destfile = destfile[len(seedroot) + 1:]
        elif m:
            destfile = m.group(1)[len(seedroot) + 1:]
        else:
            m2 = re.search(r"((?:[A-Za-z0-9_.-]+/)+[A-Za-z0-9_.-]+\.go)", run.replace("out/", "OUT/"))
            destfile = m2.group(1) if m2 else "seed_demo_test.go"
        dests = []
        cps = {os.path.basename(a): b for a, b in re.findall(r"\bcp\s+(\S+\.go)\s+(\S+\.go)", run)}
        for f in gofiles:
            if f in cps:
                dfile = cps[f][len(seedroot) + 1:] if cps[f].startswith(seedroot) else cps[f]
                dd = os.path.join(wt, dfile)
            else:
                dd = os.path.join(wt, destfile) if len(gofiles) == 1 else os.path.join(wt, os.path.dirname(destfile), f)
            os.makedirs(os.path.dirname(dd), exist_ok=True)
            shutil.copy(os.path.join(d, f), dd)
            dests.append(os.path.relpath(dd, wt))
        res["demo_files"] = dests
        lines = [l.strip().strip("`").strip() for l in run.splitlines() if re.search(r"\bgo (test|run)\b", l)]
        cmdlike = [l for l in lines if re.match(r"^(\$ )?(cd |go |export |GOFLAGS=)", l) and "`" not in l]
        lines = [re.sub(r"^\$ ", "", l) for l in cmdlike] or lines
        demo_cmd = None
        if lines:
            demo_cmd = lines[-1]
            i = demo_cmd.find("cd ")
            j = demo_cmd.find("go ")
            k = demo_cmd.find("export ")
            starts = [x for x in (i, j, k) if x >= 0]
            demo_cmd = demo_cmd[min(starts):]
            demo_cmd = demo_cmd.replace(seedroot, wt).replace('<repo>', wt).replace('$REPO', wt)
        res["demo_cmd"] = demo_cmd
        rc0, o0 = sh(demo_cmd, cwd=wt) if demo_cmd else (None, "")
        res["demo_on_clean"] = "pass" if rc0 == 0 else "FAIL(%s)" % rc0
        rc, o = sh("git apply %s/patch.diff" % d, cwd=wt)
        res["patch_applies"] = rc == 0
        if rc != 0:
            res["apply_log"] = o[-500:]
        rc, o = sh("go build ./...", cwd=wt)
        res["builds"] = rc == 0
        tests = {}
        for mod in (".", "internal/cmd/tlgen", "telegram/deeplinks"):
            # exclude the demo test itself
            rc, o = sh("go test -vet=off -count=1 -skip 'TestSeedDemo|TestSeed' ./... 2>&1 | grep -v 'no test files' | tail -15", cwd=os.path.join(wt, mod))
            tests[mod] = "ok" if ("FAIL" not in o and "panic" not in o) else o[-600:]
        res["baseline_tests_with_patch"] = tests
        rc1, o1 = sh(demo_cmd, cwd=wt) if demo_cmd else (None, "")
        res["demo_with_patch"] = "fail(as wanted)" if rc1 not in (0, None) else "PASSES(rc=%s)" % rc1
        res["demo_tail"] = o1[-400:]
        # remove demo files before running the checks (they are not part of the change)
        for f in dests:
            try:
                os.remove(os.path.join(wt, f))
            except OSError:
                pass
        env = dict(ENV, VERIF_REPO=wt, VERIF_BUILD=vb)
        checks = {}
        for p in ([] if demo_only else props):
            rc, o = sh("./check %s --tier quick" % p, cwd="/verif", env=env, timeout=3600)
            v = [l for l in o.splitlines() if l.startswith("VIOLATION")]
            checks[p] = {"rc": rc, "violations": len(v), "first": (re.findall(r"\[check\]\s+(.*)", o) or [""])[0][:300]}
        res["checks"] = checks
    finally:
        sh("git -C /repo worktree remove --force %s" % wt)
        shutil.rmtree(vb, ignore_errors=True)
    print(json.dumps(res, indent=1))


if __name__ == "__main__":
    main()
