#!/bin/sh
# Build the framework offline from files on disk: full Coq build (.vo, no -vos), extraction of
# every model and its OCaml driver, and a first build of the Go harness programs.
set -e
cd /verif
export GOFLAGS=-mod=mod GOPROXY=off GOSUMDB=off GOTOOLCHAIN=local
mkdir -p build/bin coq/gen evidence replays
python3 lib/pregen.py || true
sh coq/mkmake.sh
( cd coq && timeout 3000 make -f Makefile.coq -j16 -k ) || echo "setup: some Coq files failed (the per-property checks report them)"
for d in coq/extract/*; do
  [ "$(basename "$d")" = common ] && continue
  p=$(basename "$d")
  sh lib/build_model.sh "$p" || echo "setup: model $p failed to build"
done
echo "setup done"
