From Coq Require Import ZArith NArith List Lia ZifyN ZifyNat ZifyBool Bool.
Import ListNotations.
Open Scope N_scope.
Ltac Zify.zify_post_hook ::= Z.div_mod_to_equations.

Definition byte_ok (b:N) := b <? 256.
Definition bytes_ok (l:list N) := forallb byte_ok l.

Definition le32 (n:N) : list N := [n mod 256; (n/256) mod 256; (n/65536) mod 256; (n/16777216) mod 256].
Definition of_le32 (a b c d:N) : N := a + 256*b + 65536*c + 16777216*d.

Lemma of_le32_le32 n : n < 4294967296 ->
  of_le32 (n mod 256) ((n/256) mod 256) ((n/65536) mod 256) ((n/16777216) mod 256) = n.
Proof. unfold of_le32. intros. lia. Qed.

(* TL byte strings *)
Definition padlen (n:N) : N := (4 - n mod 4) mod 4.
Definition zeros (n:N) : list N := repeat 0 (N.to_nat n).

Definition put_bytes (m:list N) : option (list N) :=
  let n := N.of_nat (length m) in
  if n <? 254 then Some ([n] ++ m ++ zeros (padlen (1+n)))
  else if n <? 16777216 then Some ([254; n mod 256; (n/256) mod 256; (n/65536) mod 256] ++ m ++ zeros (padlen n))
  else None.

(* reader: outcome *)
Inductive res (A:Type) := Ok (a:A) | Err.
Arguments Ok {A}. Arguments Err {A}.

Definition take (n:N) (l:list N) : res (list N * list N) :=
  if N.of_nat (length l) <? n then Err else Ok (firstn (N.to_nat n) l, skipn (N.to_nat n) l).

Definition all_zero (l:list N) := forallb (N.eqb 0) l.

Definition pop_bytes (l:list N) : res (list N * list N) :=
  match l with
  | [] => Err
  | b :: r =>
    if b =? 254 then
      match r with
      | a::b'::c::r' =>
         let n := a + 256*b' + 65536*c in
         match take n r' with Err => Err | Ok (m, r'') =>
           match take (padlen n) r'' with Err => Err | Ok (p, r3) => if all_zero p then Ok (m, r3) else Err end end
      | _ => Err end
    else
      match take b r with Err => Err | Ok (m, r') =>
        match take (padlen (1+b)) r' with Err => Err | Ok (p, r3) => if all_zero p then Ok (m, r3) else Err end end
  end.

Lemma take_app (a b:list N) n : n = N.of_nat (length a) -> take n (a ++ b) = Ok (a, b).
Proof.
  intros ->. unfold take. rewrite app_length.
  destruct (N.ltb_spec (N.of_nat (length a + length b)) (N.of_nat (length a))); [lia|].
  rewrite Nat2N.id, firstn_app, Nat.sub_diag, firstn_all, skipn_app, Nat.sub_diag, skipn_all. simpl.
  now rewrite app_nil_r.
Qed.

Lemma all_zero_zeros n : all_zero (zeros n) = true.
Proof. unfold zeros. induction (N.to_nat n); simpl; auto. Qed.
Lemma length_zeros n : N.of_nat (length (zeros n)) = n.
Proof. unfold zeros. rewrite repeat_length. lia. Qed.

Theorem pop_put m bs rest : put_bytes m = Some bs -> pop_bytes (bs ++ rest) = Ok (m, rest).
Proof.
  unfold put_bytes. set (n := N.of_nat (length m)).
  destruct (N.ltb_spec n 254) as [H|H].
  - intros [= <-]. cbn [app pop_bytes].
    destruct (N.eqb_spec n 254); [lia|].
    rewrite <- app_assoc, take_app by reflexivity.
    rewrite take_app by (now rewrite length_zeros).
    now rewrite all_zero_zeros.
  - destruct (N.ltb_spec n 16777216) as [H2|H2]; [|discriminate].
    intros [= <-]. cbn [app pop_bytes]. rewrite N.eqb_refl.
    replace (n mod 256 + 256 * ((n / 256) mod 256) + 65536 * ((n / 65536) mod 256)) with n by lia.
    rewrite <- app_assoc, take_app by reflexivity.
    rewrite take_app by (now rewrite length_zeros).
    now rewrite all_zero_zeros.
Qed.
