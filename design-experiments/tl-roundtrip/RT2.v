From Coq Require Import ZArith NArith List Lia ZifyN ZifyNat ZifyBool Bool.
Require Import Bytes TL RT.
Import ListNotations.
Open Scope N_scope.

Section Ind.
Variable P : gval -> Prop.
Hypothesis HInt : forall n, P (GInt n).
Hypothesis HBytes : forall b, P (GBytes b).
Hypothesis HBool : forall b, P (GBool b).
Hypothesis HNil : P GNil.
Hypothesis HObj : forall c fs, Forall P fs -> P (GObj c fs).
Hypothesis HVec : forall l, Forall P l -> P (GVec l).
Fixpoint gval_ind' (v:gval) : P v :=
  match v with
  | GInt n => HInt n | GBytes b => HBytes b | GBool b => HBool b | GNil => HNil
  | GObj c fs => HObj c fs ((fix go (l:list gval) : Forall P l := match l with [] => Forall_nil _ | x::r => Forall_cons _ (gval_ind' x) (go r) end) fs)
  | GVec l => HVec l ((fix go (l:list gval) : Forall P l := match l with [] => Forall_nil _ | x::r => Forall_cons _ (gval_ind' x) (go r) end) l)
  end.
End Ind.

Section All2. Variable A B:Type. Variable f : A -> B -> bool.
Fixpoint all2 (l1:list A) (l2:list B) {struct l2} : bool :=
  match l1, l2 with [], [] => true | a::l1', b::l2' => f a b && all2 l1' l2' | _, _ => false end.
End All2.
Arguments all2 {A B}.

Section RT2.
Variable R : registry.

(* ---- well-formed constructor descriptors ---- *)
Definition bits_ok (k:ctor) := forall fd b, In fd (cfields k) -> fflag fd = Some b -> b < 32.
Definition pos_ok (k:ctor) :=
  match cflagpos k with
  | Some p => forall j fd, nth_error (cfields k) j = Some fd -> fflag fd <> None -> (p <= j)%nat
  | None => forall fd, In fd (cfields k) -> fflag fd = None
  end.
Definition true_ok (k:ctor) := forall fd, In fd (cfields k) -> ftype fd = FTrue -> fflag fd <> None.
Hypothesis Rwf : forall c k, lookup R c = Some k -> bits_ok k /\ pos_ok k /\ true_ok k.

Lemma lookup_crc c k : lookup R c = Some k -> ccrc k = c.
Proof. unfold lookup. intros H. apply find_some in H as [_ H]. lia. Qed.

(* ---- typing ---- *)
Definition zero_like (t:fty) (v:gval) : bool :=
  match v, zero_of t with GInt 0, GInt 0 | GBytes [], GBytes [] | GNil, GNil | GVec [], GVec [] => true | _, _ => false end.
Definition wt_field (wt : fty -> gval -> bool) (fd:field) (v:gval) : bool :=
  match fflag fd with
  | None => wt (ftype fd) v
  | Some _ => match ftype fd, v with FTrue, GBool _ => true | FTrue, _ => false
              | t, v => zero_like t v || wt t v end
  end.

Fixpoint wt (t:fty) (v:gval) {struct v} : bool :=
  match t, v with
  | FInt, GInt n => n <? 4294967296
  | FBytes, GBytes b => true
  | FBoxed, GObj c fs =>
      match lookup R c with Some k => all2 (wt_field wt) (cfields k) fs | None => false end
  | FBare c', GObj c fs => (c' =? c) &&
      match lookup R c with Some k => all2 (wt_field wt) (cfields k) fs | None => false end
  | FVec e, GVec l => (N.of_nat (length l) <? 4294967296) && forallb (wt e) l
  | _, _ => false end.

Definition wt_fields := all2 (wt_field wt).

(* ---- normal form ---- *)
Fixpoint norm_fields (flags:N) (fds:list field) (vs:list gval) : list gval :=
  match fds, vs with
  | fd::fds', v::vs' =>
     (match ftype fd with FTrue => GBool (present flags fd) | t => if present flags fd then v else zero_of t end)
       :: norm_fields flags fds' vs'
  | _, _ => [] end.
Fixpoint norm (v:gval) : gval :=
  match v with
  | GObj c fs => match lookup R c with
                 | Some k => GObj c (norm_fields (flags_of (cfields k) fs) (cfields k) (map norm fs))
                 | None => v end
  | GVec l => GVec (map norm l)
  | _ => v end.

(* ---- flags word facts ---- *)
Lemma log2_lt32 a : a < 2^32 -> N.log2 a < 32.
Proof. intros. destruct (N.eq_dec a 0) as [->|]; [cbn; lia|]. apply N.log2_lt_pow2; lia. Qed.
Lemma lor_lt32 a b : a < 2^32 -> b < 2^32 -> N.lor a b < 2^32.
Proof. intros Ha Hb. destruct (N.eq_dec (N.lor a b) 0) as [->|Hn]; [cbn; lia|].
  apply N.log2_lt_pow2; [lia|]. rewrite N.log2_lor. apply N.max_lub_lt; now apply log2_lt32. Qed.

Lemma flags_of_lt fds : (forall fd b, In fd fds -> fflag fd = Some b -> b < 32) -> forall vs, flags_of fds vs < 4294967296.
Proof.
  induction fds as [|fd fds IH]; intros Hb vs; cbn [flags_of]; [lia|]. destruct vs as [|v vs]; [lia|].
  assert (IH' := IH (fun fd b Hin => Hb fd b (or_intror Hin)) vs).
  destruct (fflag fd) as [b|] eqn:E; auto. destruct (is_zero v); auto.
  assert (Hb32: b < 32) by (eapply Hb; [left; reflexivity|exact E]).
  change 4294967296 with (2^32) in *. apply lor_lt32; auto.
  rewrite N.shiftl_1_l. apply N.pow_lt_mono_r; lia.
Qed.

(* if the bit of a flagged field is clear in the flags word, the field is zero *)
Lemma flags_clear_zero fds vs : forall j fd v b,
  nth_error fds j = Some fd -> nth_error vs j = Some v -> fflag fd = Some b ->
  N.testbit (flags_of fds vs) b = false -> is_zero v = true.
Proof.
  revert vs. induction fds as [|fd0 fds IH]; intros vs j fd v b Hf Hv Hb Ht; [destruct j; discriminate|].
  destruct vs as [|v0 vs]; [destruct j; discriminate|]. cbn [flags_of] in Ht.
  destruct j as [|j]; cbn in Hf, Hv.
  - injection Hf as ->. injection Hv as ->. rewrite Hb in Ht. destruct (is_zero v); auto.
    rewrite N.lor_spec, N.shiftl_1_l, N.pow2_bits_true in Ht. discriminate.
  - destruct (fflag fd0) as [b0|]; [|eauto]. destruct (is_zero v0); [eauto|].
    rewrite N.lor_spec in Ht. apply orb_false_elim in Ht as [_ Ht]. eauto.
Qed.

Lemma pop32_le32 n rest : n < 4294967296 -> pop32 (le32 n ++ rest) = Ok (n, rest).
Proof. intros H. unfold le32, pop32. cbn [app]. now rewrite of_le32_le32. Qed.

(* ---- the theorem ---- *)
Definition RTP (v:gval) : Prop := forall t bs rest, wt t v = true -> enc R v = Some bs ->
  exists f, dec R f (JVal t) (bs ++ rest) = Ok ([norm v], rest).

Lemma obind_some {A B} (o:option A) (f:A -> option B) b : obind o f = Some b -> exists a, o = Some a /\ f a = Some b.
Proof. destruct o; cbn; [eauto|discriminate]. Qed.

Lemma dec_le f f' j bs r : dec R f j bs = Ok r -> (f <= f')%nat -> dec R f' j bs = Ok r.
Proof. intros; eapply dec_mono; eauto. Qed.

Lemma wt_field_mand fd v : fflag fd = None -> wt_field wt fd v = wt (ftype fd) v.
Proof. unfold wt_field. now intros ->. Qed.

Lemma zero_shape t v : zero_like t v = true -> v = zero_of t.
Proof. unfold zero_like. destruct t, v; cbn; try discriminate; try (destruct n; discriminate || reflexivity); try (destruct b; discriminate || reflexivity); try (destruct l; discriminate || reflexivity); auto. Qed.

Lemma wt_field_present fd v a : wt_field wt fd v = true -> ftype fd <> FTrue -> enc R v = Some a -> wt (ftype fd) v = true.
Proof.
  unfold wt_field. destruct (fflag fd); auto. intros H Ht He.
  destruct (ftype fd) eqn:Et; try congruence.
  all: apply orb_prop in H as [H|H]; auto.
  all: apply zero_shape in H; subst v; cbn in He |- *; try discriminate; auto.
Qed.

(* fields: generalised over the suffix *)
Lemma fields_rt k flags : bits_ok k -> true_ok k -> flags < 4294967296 ->
  forall fds vs i cur body rest,
  (forall fd, In fd fds -> In fd (cfields k)) ->
  Forall RTP vs ->
  wt_fields fds vs = true ->
  (* bit clear => zero value *)
  (forall j fd v b, nth_error fds j = Some fd -> nth_error vs j = Some v -> fflag fd = Some b -> N.testbit flags b = false -> is_zero v = true) ->
  (* position invariant *)
  (match cflagpos k with
   | Some p => if (p <? i)%nat then cur = flags else forall j fd, nth_error fds j = Some fd -> fflag fd <> None -> (p <= i + j)%nat
   | None => forall fd, In fd fds -> fflag fd = None end) ->
  assemble (cflagpos k) flags i fds (map (enc R) vs) = Some body ->
  exists f, dec R f (JFields (cflagpos k) i cur fds) (body ++ rest) = Ok (norm_fields flags fds (map norm vs), rest).
Proof.
  intros Hbits Htrue Hlt. induction fds as [|fd fds IH]; intros vs i cur body rest Hin HP Hwt Hclr Hpos Hasm.
  - destruct vs; [|discriminate]. cbn in Hasm. injection Hasm as <-.
    exists 1%nat. rewrite dec_S. unfold dec_body. fold (flag_here (cflagpos k) i).
    destruct (flag_here (cflagpos k) i); cbn [norm_fields map].
    + rewrite pop32_le32 by exact Hlt. reflexivity.
    + reflexivity.
  - destruct vs as [|v vs]; [discriminate|]. cbn [map assemble] in Hasm. fold (flag_here (cflagpos k) i) in Hasm.
    apply obind_some in Hasm as [a [Ha Hasm]]. apply obind_some in Hasm as [b [Hb Hasm]]. injection Hasm as <-.
    unfold wt_fields in Hwt; cbn [all2] in Hwt; fold wt_fields in Hwt. apply andb_prop in Hwt as [Hwtv Hwt]. inversion HP as [|? ? HPv HPvs]; subst.
    (* the flags word the decoder will use when it reaches this field *)
    set (cur' := if flag_here (cflagpos k) i then flags else cur).
    assert (Hcur: forall bb, fflag fd = Some bb -> cur' = flags).
    { intros bb Hbb. unfold cur', flag_here. destruct (cflagpos k) as [p|] eqn:Ep.
      - destruct (Nat.eqb_spec p i); auto. destruct (Nat.ltb_spec p i); auto.
        specialize (Hpos 0%nat fd eq_refl). rewrite Hbb in Hpos. specialize (Hpos ltac:(discriminate)). lia.
      - rewrite (Hpos fd (or_introl eq_refl)) in Hbb. discriminate. }
    assert (Hpres: present cur' fd = present flags fd).
    { unfold present. destruct (fflag fd) eqn:E; auto. now rewrite (Hcur _ eq_refl). }
    (* recursive part *)
    destruct (IH vs (S i) cur' b rest) as [f2 Hf2]; auto.
    { intros; apply Hin; now right. }
    { intros j fd0 v0 b0 H1 H2. apply (Hclr (S j)); auto. }
    { unfold cur', flag_here. destruct (cflagpos k) as [p|] eqn:Ep.
      - destruct (Nat.eqb_spec p i).
        + subst. destruct (Nat.ltb_spec i (S i)); [reflexivity|lia].
        + destruct (Nat.ltb_spec p i).
          * destruct (Nat.ltb_spec p (S i)); [assumption|lia].
          * destruct (Nat.ltb_spec p (S i)); [lia|]. intros j fd0 H1 H2. specialize (Hpos (S j) fd0 H1 H2). lia.
      - intros; apply Hpos; now right. }
    (* this field *)
    assert (Hthis: exists f1,
       forall f, (f1 <= f)%nat ->
       match (if present cur' fd
        then match ftype fd with
             | FTrue => rbind (dec R f (JFields (cflagpos k) (S i) cur' fds) ((a ++ b) ++ rest)) (fun '(vs0, r) => Ok (GBool true :: vs0, r))
             | t => rbind (dec R f (JVal t) ((a ++ b) ++ rest)) (fun '(v0, r) => rbind (dec R f (JFields (cflagpos k) (S i) cur' fds) r) (fun '(vs0, r') => Ok (v0 ++ vs0, r')))
             end
        else rbind (dec R f (JFields (cflagpos k) (S i) cur' fds) ((a ++ b) ++ rest)) (fun '(vs0, r) => Ok (zero_of (ftype fd) :: vs0, r)))
       with Ok x => x = (norm_fields flags (fd :: fds) (map norm (v :: vs)), rest) | Err => False end).
    { rewrite Hpres. cbn [norm_fields map]. destruct (present flags fd) eqn:Ep.
      - destruct (ftype fd) eqn:Et.
        3:{ (* FTrue *) exists f2. intros f Hf. injection Ha as <-. cbn [app].
            rewrite (dec_le _ f _ _ _ Hf2) by lia. cbn [rbind]. reflexivity. }
        all: (assert (Hwt': wt (ftype fd) v = true) by (apply (wt_field_present fd v a); [exact Hwtv|rewrite Et; discriminate|exact Ha]);
              rewrite Et in Hwt'; destruct (HPv _ _ (b ++ rest) Hwt' Ha) as [f1 Hf1];
              exists (Nat.max f1 f2); intros f0 Hf;
              rewrite <- app_assoc, (dec_le _ f0 _ _ _ Hf1) by lia; cbn [rbind];
              rewrite (dec_le _ f0 _ _ _ Hf2) by lia; cbn [rbind app]; reflexivity).
      - exists f2. intros f Hf.
        assert (a = []) by (try rewrite Ep in Ha; now injection Ha). subst a. cbn [app].
        rewrite (dec_le _ f _ _ _ Hf2) by lia. cbn [rbind].
        destruct (ftype fd) eqn:Et; try reflexivity. }
    destruct Hthis as [f1 H1]. exists (S f1). specialize (H1 f1 (le_n _)).
    rewrite dec_S. unfold dec_body. fold (flag_here (cflagpos k) i). unfold cur' in H1.
    destruct (flag_here (cflagpos k) i).
    + rewrite <- !app_assoc, pop32_le32 by exact Hlt. cbn [rbind].
      rewrite <- app_assoc in H1.
      match goal with H1 : match ?X with _ => _ end |- ?Y = _ => change Y with X; destruct X as [x|]; [now subst x|contradiction] end.
    + cbn [app].
      match goal with H1 : match ?X with _ => _ end |- ?Y = _ => change Y with X; destruct X as [x|]; [now subst x|contradiction] end.
Qed.

Hypothesis Rcrc : forall c k, lookup R c = Some k -> c < 4294967296.

Lemma some_inj {A} (a b:A) : Some a = Some b -> a = b.
Proof. congruence. Qed.

Lemma list_rt e : forall l body rest,
  Forall RTP l -> forallb (wt e) l = true -> concat_opt (map (enc R) l) = Some body ->
  exists f, dec R f (JList e (length l)) (body ++ rest) = Ok (map norm l, rest).
Proof.
  induction l as [|v l IH]; intros body rest HP Hwt Hc.
  - cbn in Hc. injection Hc as <-. exists 1%nat. reflexivity.
  - cbn [map concat_opt] in Hc. apply obind_some in Hc as [a [Ha Hc]]. apply obind_some in Hc as [b [Hb Hc]]. injection Hc as <-.
    cbn [forallb] in Hwt. apply andb_prop in Hwt as [Hwv Hwl]. inversion HP as [|? ? HPv HPl]; subst.
    destruct (IH b rest HPl Hwl Hb) as [f2 Hf2]. destruct (HPv e a (b ++ rest) Hwv Ha) as [f1 Hf1].
    exists (S (Nat.max f1 f2)). rewrite dec_S. unfold dec_body. cbn [length].
    rewrite <- app_assoc, (dec_le _ (Nat.max f1 f2) _ _ _ Hf1) by lia. cbn [rbind].
    rewrite (dec_le _ (Nat.max f1 f2) _ _ _ Hf2) by lia. reflexivity.
Qed.

Lemma obj_rt c fs k body rest :
  Forall RTP fs -> lookup R c = Some k -> wt_fields (cfields k) fs = true ->
  assemble (cflagpos k) (flags_of (cfields k) fs) 0 (cfields k) (map (enc R) fs) = Some body ->
  exists f, dec R f (JFields (cflagpos k) 0 0 (cfields k)) (body ++ rest)
          = Ok (norm_fields (flags_of (cfields k) fs) (cfields k) (map norm fs), rest).
Proof.
  intros HP Hl Hwt Hasm. destruct (Rwf _ _ Hl) as [Hb [Hp Ht]].
  eapply fields_rt; eauto.
  all: try (apply flags_of_lt; intros; eapply Hb; eauto).
  all: try (intros; eapply flags_clear_zero; eauto; fail).
  all: try (unfold pos_ok in Hp; destruct (cflagpos k); auto; cbn; intros; eapply Hp; eauto; fail).
Qed.

Theorem rt : forall v, RTP v.
Proof.
  induction v using gval_ind'; intros t bs rest Hwt Henc.
  - destruct t; try discriminate. cbn in Hwt, Henc. rewrite Hwt in Henc. apply some_inj in Henc; subst bs.
    exists 1%nat. rewrite dec_S. unfold dec_body. rewrite pop32_le32 by lia. reflexivity.
  - destruct t; try discriminate. cbn in Henc. exists 1%nat. rewrite dec_S. unfold dec_body.
    rewrite (pop_put _ _ rest Henc). reflexivity.
  - destruct t; discriminate.
  - destruct t; discriminate.
  - cbn [enc] in Henc. destruct (lookup R c) as [k|] eqn:Hl; [|discriminate].
    apply obind_some in Henc as [body [Hasm Henc]]. apply some_inj in Henc; subst bs.
    assert (Hc := Rcrc _ _ Hl). assert (Hk := lookup_crc _ _ Hl).
    destruct t; try discriminate.
    + cbn [wt] in Hwt. rewrite Hl in Hwt.
      destruct (obj_rt c fs k body rest H Hl Hwt Hasm) as [f Hf].
      exists (S f). rewrite dec_S. unfold dec_body. rewrite <- app_assoc, pop32_le32 by exact Hc. cbn [rbind].
      rewrite Hl, Hf. cbn [rbind norm]. now rewrite Hl, Hk.
    + cbn [wt] in Hwt. rewrite Hl in Hwt. apply andb_prop in Hwt as [Hcc Hwt]. apply N.eqb_eq in Hcc. subst c0.
      destruct (obj_rt c fs k body rest H Hl Hwt Hasm) as [f Hf].
      exists (S f). rewrite dec_S. unfold dec_body. rewrite <- app_assoc, pop32_le32 by exact Hc. cbn [rbind].
      rewrite N.eqb_refl, Hl, Hf. cbn [rbind norm]. now rewrite Hl, Hk.
  - destruct t; try discriminate. cbn [wt] in Hwt. apply andb_prop in Hwt as [Hlen Hwt].
    cbn [enc] in Henc. apply obind_some in Henc as [body [Hc Henc]]. apply some_inj in Henc; subst bs.
    destruct (list_rt t l body rest H Hwt Hc) as [f Hf].
    exists (S f). rewrite dec_S. unfold dec_body.
    rewrite <- !app_assoc, pop32_le32 by (unfold vec_crc; lia). cbn [rbind]. rewrite N.eqb_refl.
    rewrite pop32_le32 by lia. cbn [rbind]. rewrite Nat2N.id, Hf. reflexivity.
Qed.
End RT2.
Check rt.
Print Assumptions rt.
