From Coq Require Import ZArith NArith List Lia ZifyN ZifyNat ZifyBool Bool.
Require Import Bytes.
Import ListNotations.
Open Scope N_scope.

Inductive fty := FInt | FBytes | FTrue | FBoxed | FBare (c:N) | FVec (e:fty).
Record field := { ftype : fty; fflag : option N }.
Record ctor := { ccrc : N; cfields : list field; cflagpos : option nat }.
Definition registry := list ctor.
Definition lookup (R:registry) (c:N) : option ctor := find (fun k => ccrc k =? c) R.

Inductive gval :=
| GInt (n:N) | GBytes (b:list N) | GBool (b:bool) | GNil
| GObj (c:N) (fs:list gval) | GVec (l:list gval).

Definition is_zero (v:gval) : bool :=
  match v with GInt 0 => true | GBytes [] => true | GBool false => true | GNil => true | GVec [] => true | _ => false end.

Fixpoint flags_of (fds:list field) (vs:list gval) : N :=
  match fds, vs with
  | fd::fds', v::vs' =>
     let r := flags_of fds' vs' in
     match fflag fd with Some b => if is_zero v then r else N.lor (N.shiftl 1 b) r | None => r end
  | _, _ => 0 end.

Definition present (flags:N) (fd:field) : bool :=
  match fflag fd with Some b => N.testbit flags b | None => true end.

Definition vec_crc : N := 481674261.
Definition obind {A B} (o:option A) (f:A->option B) := match o with Some a => f a | None => None end.

Fixpoint concat_opt (l:list (option (list N))) : option (list N) :=
  match l with [] => Some [] | x::r => obind x (fun a => obind (concat_opt r) (fun b => Some (a++b))) end.

(* assemble the body of a struct from already-encoded field values *)
Fixpoint assemble (flagpos:option nat) (flags:N) (i:nat) (fds:list field) (es:list (option (list N))) : option (list N) :=
  let pre := if match flagpos with Some p => Nat.eqb p i | None => false end then le32 flags else [] in
  match fds, es with
  | [], [] => Some pre
  | fd::fds', e::es' =>
      obind (if present flags fd then (match ftype fd with FTrue => Some [] | _ => e end) else Some [])
        (fun a => obind (assemble flagpos flags (S i) fds' es') (fun b => Some (pre ++ a ++ b)))
  | _, _ => None end.

Section Codec.
Variable R : registry.

Fixpoint enc (v:gval) : option (list N) :=
  match v with
  | GInt n => if n <? 4294967296 then Some (le32 n) else None
  | GBytes b => put_bytes b
  | GBool _ => None
  | GNil => None
  | GVec l => obind (concat_opt (map enc l)) (fun b => Some (le32 vec_crc ++ le32 (N.of_nat (length l)) ++ b))
  | GObj c fs =>
     match lookup R c with None => None | Some k =>
       obind (assemble (cflagpos k) (flags_of (cfields k) fs) 0 (cfields k) (map enc fs))
             (fun b => Some (le32 c ++ b))
     end
  end.

(* ---------- decoder ---------- *)
Definition pop32 (l:list N) : res (N * list N) :=
  match l with a::b::c::d::r => Ok (of_le32 a b c d, r) | _ => Err end.

Definition zero_of (t:fty) : gval :=
  match t with FInt => GInt 0 | FBytes => GBytes [] | FTrue => GBool false | FBoxed => GNil | FBare _ => GNil | FVec _ => GVec [] end.

Definition flag_here (flagpos:option nat) (i:nat) : bool := match flagpos with Some p => Nat.eqb p i | None => false end.

Inductive job := JVal (t:fty) | JFields (fp:option nat) (i:nat) (fl:N) (fds:list field) | JList (e:fty) (n:nat).
Definition rbind {A B} (r:res A) (f:A -> res B) : res B := match r with Ok a => f a | Err => Err end.

(* one decoding step, parameterised by the recursive call [rec] *)
Definition dec_body (rec : job -> list N -> res (list gval * list N)) (j:job) (bs:list N) : res (list gval * list N) :=
  let obj k r := rbind (rec (JFields (cflagpos k) 0%nat 0 (cfields k)) r) (fun '(vs, r') => Ok ([GObj (ccrc k) vs], r')) in
  match j with
  | JVal FInt => rbind (pop32 bs) (fun '(n, r) => Ok ([GInt n], r))
  | JVal FBytes => rbind (pop_bytes bs) (fun '(b, r) => Ok ([GBytes b], r))
  | JVal FTrue => Err
  | JVal FBoxed => rbind (pop32 bs) (fun '(c, r) => match lookup R c with Some k => obj k r | None => Err end)
  | JVal (FBare c) => rbind (pop32 bs) (fun '(c', r) => if c' =? c then match lookup R c with Some k => obj k r | None => Err end else Err)
  | JVal (FVec e) => rbind (pop32 bs) (fun '(c, r) => if c =? vec_crc then
                       rbind (pop32 r) (fun '(n, r') => rbind (rec (JList e (N.to_nat n)) r') (fun '(vs, r'') => Ok ([GVec vs], r''))) else Err)
  | JFields fp i fl fds =>
      let go fl bs :=
        match fds with
        | [] => Ok ([], bs)
        | fd::fds' =>
           if present fl fd then
             match ftype fd with
             | FTrue => rbind (rec (JFields fp (S i) fl fds') bs) (fun '(vs, r) => Ok (GBool true :: vs, r))
             | t => rbind (rec (JVal t) bs) (fun '(v, r) => rbind (rec (JFields fp (S i) fl fds') r) (fun '(vs, r') => Ok (v ++ vs, r')))
             end
           else rbind (rec (JFields fp (S i) fl fds') bs) (fun '(vs, r) => Ok (zero_of (ftype fd) :: vs, r))
        end in
      if flag_here fp i then rbind (pop32 bs) (fun '(fl', r) => go fl' r) else go fl bs
  | JList e n =>
      match n with O => Ok ([], bs) | S n' =>
        rbind (rec (JVal e) bs) (fun '(v, r) => rbind (rec (JList e n') r) (fun '(vs, r') => Ok (v ++ vs, r'))) end
  end.

Fixpoint dec (fuel:nat) (j:job) (bs:list N) : res (list gval * list N) :=
  match fuel with O => Err | S f => dec_body (dec f) j bs end.

Lemma dec_S f j bs : dec (S f) j bs = dec_body (dec f) j bs.
Proof. reflexivity. Qed.
End Codec.
