From Coq Require Import ZArith NArith List Lia ZifyN ZifyNat ZifyBool Bool.
Require Import Bytes TL.
Import ListNotations.
Open Scope N_scope.

Section RT.
Variable R : registry.

Lemma rbind_ok {A B} (r:res A) (f:A -> res B) b : rbind r f = Ok b -> exists a, r = Ok a /\ f a = Ok b.
Proof. destruct r; simpl; [eauto|discriminate]. Qed.

(* monotone "rec" gives monotone body *)
Lemma dec_body_mono (rec rec' : job -> list N -> res (list gval * list N)) :
  (forall j bs r, rec j bs = Ok r -> rec' j bs = Ok r) ->
  forall j bs r, dec_body R rec j bs = Ok r -> dec_body R rec' j bs = Ok r.
Proof.
  intros Hrec j bs r H.
  unfold dec_body in *.
  destruct j as [t|fp i fl fds|e n].
  - destruct t; auto.
    + apply rbind_ok in H as [[c r0] [-> H]]. cbn [rbind]. destruct (lookup R c); auto.
      apply rbind_ok in H as [[vs r1] [H1 H]]. now rewrite (Hrec _ _ _ H1).
    + apply rbind_ok in H as [[c' r0] [-> H]]. cbn [rbind]. destruct (c' =? c); auto. destruct (lookup R c); auto.
      apply rbind_ok in H as [[vs r1] [H1 H]]. now rewrite (Hrec _ _ _ H1).
    + apply rbind_ok in H as [[c r0] [-> H]]. cbn [rbind]. destruct (c =? vec_crc); auto.
      apply rbind_ok in H as [[n r1] [-> H]]. cbn [rbind].
      apply rbind_ok in H as [[vs r2] [H1 H]]. now rewrite (Hrec _ _ _ H1).
  - assert (G: forall fl bs r,
      match fds with
      | [] => Ok ([], bs)
      | fd :: fds' =>
          if present fl fd
          then match ftype fd with
               | FTrue => rbind (rec (JFields fp (S i) fl fds') bs) (fun '(vs, r) => Ok (GBool true :: vs, r))
               | t => rbind (rec (JVal t) bs) (fun '(v, r) => rbind (rec (JFields fp (S i) fl fds') r) (fun '(vs, r') => Ok (v ++ vs, r')))
               end
          else rbind (rec (JFields fp (S i) fl fds') bs) (fun '(vs, r) => Ok (zero_of (ftype fd) :: vs, r))
      end = Ok r ->
      match fds with
      | [] => Ok ([], bs)
      | fd :: fds' =>
          if present fl fd
          then match ftype fd with
               | FTrue => rbind (rec' (JFields fp (S i) fl fds') bs) (fun '(vs, r) => Ok (GBool true :: vs, r))
               | t => rbind (rec' (JVal t) bs) (fun '(v, r) => rbind (rec' (JFields fp (S i) fl fds') r) (fun '(vs, r') => Ok (v ++ vs, r')))
               end
          else rbind (rec' (JFields fp (S i) fl fds') bs) (fun '(vs, r) => Ok (zero_of (ftype fd) :: vs, r))
      end = Ok r).
    { clear H. intros fl0 bs0 r0 H. destruct fds as [|fd fds']; auto.
      destruct (present fl0 fd).
      - destruct (ftype fd);
        try (apply rbind_ok in H as [[v r1] [H1 H]]; rewrite (Hrec _ _ _ H1); cbn [rbind];
             apply rbind_ok in H as [[vs r2] [H2 H]]; now rewrite (Hrec _ _ _ H2)).
        apply rbind_ok in H as [[vs r2] [H2 H]]; now rewrite (Hrec _ _ _ H2).
      - apply rbind_ok in H as [[vs r2] [H2 H]]; now rewrite (Hrec _ _ _ H2). }
    destruct (flag_here fp i); auto.
    apply rbind_ok in H as [[fl' r0] [-> H]]. cbn [rbind]. auto.
  - destruct n; auto.
    apply rbind_ok in H as [[v r1] [H1 H]]; rewrite (Hrec _ _ _ H1); cbn [rbind].
    apply rbind_ok in H as [[vs r2] [H2 H]]; now rewrite (Hrec _ _ _ H2).
Qed.

Lemma dec_mono f : forall j bs r, dec R f j bs = Ok r -> forall f', (f <= f')%nat -> dec R f' j bs = Ok r.
Proof.
  induction f as [|f IH]; intros j bs r H f' Hle; [discriminate|].
  destruct f' as [|f']; [lia|]. rewrite dec_S in *.
  eapply dec_body_mono; [|exact H]. intros; apply IH; auto; lia.
Qed.
End RT.
