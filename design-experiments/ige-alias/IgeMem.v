From Coq Require Import List Arith Lia.
Import ListNotations.

Section Ige.
Variable block : Type.
Variable zero : block.
Variable bxor : block -> block -> block.
Variable E D : block -> block.
Hypothesis DE : forall b, D (E b) = b.
Hypothesis L1 : forall a b, bxor b (bxor a b) = a.
Hypothesis L2 : forall c p, bxor (bxor c p) c = p.

(* the definition: c_i = E(p_i xor c_{i-1}) xor p_{i-1} *)
Fixpoint ige_enc (cprev pprev:block) (ps:list block) : list block :=
  match ps with [] => [] | p::r => let c := bxor (E (bxor cprev p)) pprev in c :: ige_enc c p r end.
Fixpoint ige_dec (cprev pprev:block) (cs:list block) : list block :=
  match cs with [] => [] | c::r => let p := bxor (D (bxor pprev c)) cprev in p :: ige_dec c p r end.

Theorem ige_dec_enc ps : forall c0 p0, ige_dec c0 p0 (ige_enc c0 p0 ps) = ps.
Proof.
  induction ps as [|p r IH]; intros c0 p0; cbn [ige_enc ige_dec]; [reflexivity|].
  rewrite L1, DE, L2. f_equal. apply IH.
Qed.

(* ---- the loop as written, over a store with aliasing registers ---- *)
Inductive ref := RV0 | RV1 | RV2 | RIn (i:nat).
Record st := mk { v0 : block; v1 : block; v2 : block; ins : list block; outs : list block; rx : ref; ry : ref }.

Fixpoint upd (i:nat) (b:block) (l:list block) : list block :=
  match l, i with [], _ => [] | _::r, O => b::r | a::r, S i' => a :: upd i' b r end.

Definition rd (s:st) (r:ref) : block :=
  match r with RV0 => v0 s | RV1 => v1 s | RV2 => v2 s | RIn i => nth i (ins s) zero end.
Definition wr (s:st) (r:ref) (b:block) : st :=
  match r with
  | RV0 => mk b (v1 s) (v2 s) (ins s) (outs s) (rx s) (ry s)
  | RV1 => mk (v0 s) b (v2 s) (ins s) (outs s) (rx s) (ry s)
  | RV2 => mk (v0 s) (v1 s) b (ins s) (outs s) (rx s) (ry s)
  | RIn i => mk (v0 s) (v1 s) (v2 s) (upd i b (ins s)) (outs s) (rx s) (ry s)
  end.

(* one iteration of doAES256IGEencrypt; c.t always points at V0 *)
Definition enc_iter (s:st) (i:nat) : st :=
  let s1 := wr s (rx s) (bxor (rd s (rx s)) (rd s (RIn i))) in   (* xor(c.x, in[i:i+16])     *)
  let s2 := wr s1 RV0 (E (rd s1 (rx s1))) in                     (* c.block.Encrypt(c.t, c.x) *)
  let s3 := wr s2 RV0 (bxor (rd s2 RV0) (rd s2 (ry s2))) in      (* xor(c.t, c.y)             *)
  mk (v0 s3) (v1 s3) (v2 s3) (ins s3) (outs s3 ++ [rd s3 RV0]) RV0 (RIn i).  (* c.x,c.y = c.t,in[i..]; copy(out[i:], c.t) *)

Definition good (s:st) : Prop :=
  (rx s = RV0 \/ rx s = RV1) /\ (ry s = RV2 \/ exists j, ry s = RIn j).

Lemma enc_iter_spec s i : good s ->
  let s' := enc_iter s i in
  ins s' = ins s /\ good s' /\ rx s' = RV0 /\ ry s' = RIn i /\
  outs s' = outs s ++ [bxor (E (bxor (rd s (rx s)) (nth i (ins s) zero))) (rd s (ry s))] /\
  rd s' (rx s') = bxor (E (bxor (rd s (rx s)) (nth i (ins s) zero))) (rd s (ry s)).
Proof.
  intros [[Hx|Hx] [Hy|[j Hy]]]; unfold enc_iter; rewrite Hx, ?Hy; cbn; rewrite ?Hx, ?Hy; cbn;
    repeat split; eauto; unfold good; cbn; eauto.
Qed.

Lemma run_spec : forall rem k s ps, good s -> ins s = ps -> skipn k ps = rem ->
  let s' := fold_left enc_iter (seq k (length rem)) s in
  ins s' = ps /\ outs s' = outs s ++ ige_enc (rd s (rx s)) (rd s (ry s)) rem.
Proof.
  induction rem as [|p rem IH]; intros k s ps Hg Hi Hs; cbn [length seq fold_left ige_enc].
  - now rewrite app_nil_r.
  - destruct (enc_iter_spec s k Hg) as (Hins & Hg' & Hx' & Hy' & Ho & Hc).
    assert (Hnth: nth k ps zero = p).
    { clear - Hs. revert ps Hs. induction k; intros [|a ps] Hs; cbn in *; try discriminate; [now injection Hs|auto]. }
    assert (Hrem: skipn (S k) ps = rem).
    { clear - Hs. revert ps Hs. induction k; intros [|a ps] Hs; cbn in *; try discriminate; [now injection Hs|auto]. }
    destruct (IH (S k) (enc_iter s k) ps Hg' (eq_trans Hins Hi) Hrem) as [H1 H2].
    split; [exact H1|]. rewrite H2, Ho, <- app_assoc. cbn [app].
    assert (Hp: rd (enc_iter s k) (ry (enc_iter s k)) = p).
    { rewrite Hy'. cbn [rd]. rewrite Hins, Hi. exact Hnth. }
    rewrite Hc, Hp, Hi, Hnth. reflexivity.
Qed.

Theorem enc_is_ige c0 p0 ps :
  let s0 := mk zero c0 p0 ps [] RV1 RV2 in
  let s := fold_left enc_iter (seq 0 (length ps)) s0 in
  outs s = ige_enc c0 p0 ps /\ ins s = ps.
Proof.
  cbn zeta. destruct (run_spec ps 0 (mk zero c0 p0 ps [] RV1 RV2) ps) as [H1 H2]; cbn; auto.
  unfold good; cbn; auto.
Qed.
End Ige.
Print Assumptions enc_is_ige.
